package main

import (
	"fmt"
	"go/ast"
	"go/parser"
	"go/token"
	"path/filepath"
	"strconv"
	"strings"

	"github.com/mmcloughlin/avo/reg"
)

func init() { props["C20"] = c20 }

// astRegs reads the gp(...)/vec(...)/opmask(...)/Pseudo.define(...) calls of reg/x86.go syntactically
func astRegs(repo string) []string {
	fset := token.NewFileSet()
	f, err := parser.ParseFile(fset, filepath.Join(repo, "reg", "x86.go"), nil, 0)
	if err != nil {
		die(err)
	}
	var out []string
	ast.Inspect(f, func(n ast.Node) bool {
		call, ok := n.(*ast.CallExpr)
		if !ok {
			return true
		}
		fn := ""
		switch x := call.Fun.(type) {
		case *ast.Ident:
			fn = x.Name
		case *ast.SelectorExpr:
			fn = exprString(x)
		}
		if fn != "gp" && fn != "vec" && fn != "opmask" && fn != "Pseudo.define" || len(call.Args) < 3 {
			return true
		}
		spec := exprString(call.Args[0])
		idx := call.Args[1].(*ast.BasicLit).Value
		name, _ := strconv.Unquote(call.Args[2].(*ast.BasicLit).Value)
		var flags []string
		for _, a := range call.Args[3:] {
			flags = append(flags, exprString(a))
		}
		out = append(out, fmt.Sprintf("%s|%s|%s|%s|%s", fn, spec, idx, name, strings.Join(flags, "+")))
		return true
	})
	return out
}

var specByName = map[string]reg.Spec{"S0": reg.S0, "S8": reg.S8, "S8L": reg.S8L, "S8H": reg.S8H, "S16": reg.S16, "S32": reg.S32, "S64": reg.S64, "S128": reg.S128, "S256": reg.S256, "S512": reg.S512}

func c20(c *Ctx) {
	o := c.Out
	o.WriteFile("Tab.v", commonTab(c))
	o.Stage("Tab.v")
	o.Oblig("Tab.info_constants_ok")

	// cross-check: the run-time dump equals the syntactic reading of reg/x86.go, in order
	src := astRegs(c.Repo)
	famOf := map[string]uint64{"Pseudo.define": 0, "gp": 1, "vec": 2, "opmask": 3}
	if len(src) != len(theRegs) {
		o.Plan.GoViolations = append(o.Plan.GoViolations, GoViolation{Key: "regs:translator", Desc: fmt.Sprintf("reg/x86.go declares %d registers syntactically but the families hold %d", len(src), len(theRegs))})
	}
	// the dump is grouped by family; compare as multisets of (family, mask, idx, name, info)
	seen := map[string]int{}
	for _, e := range theRegs {
		seen[fmt.Sprintf("%d|%d|%d|%s|%d", e.Family, e.Mask, e.Idx, e.Name, e.Info)]++
	}
	for _, s := range src {
		p := strings.Split(s, "|")
		info := uint64(0)
		for _, fl := range strings.Split(p[4], "+") {
			switch fl {
			case "Restricted":
				info |= uint64(reg.Restricted)
			case "BasePointer":
				info |= uint64(reg.BasePointer)
			}
		}
		idx, _ := strconv.Atoi(p[2])
		k := fmt.Sprintf("%d|%d|%d|%s|%d", famOf[p[0]], uint64(specByName[p[1]].Mask()), idx, p[3], info)
		seen[k]--
	}
	for k, v := range seen {
		if v != 0 {
			o.Plan.GoViolations = append(o.Plan.GoViolations, GoViolation{Key: "regs:translator", Desc: "run-time register dump and syntactic reading of reg/x86.go disagree on " + k})
		}
	}

	// view conversions: every physical register x every spec; virtual registers x every spec
	var rows []string
	specs := []reg.Spec{reg.S8L, reg.S8H, reg.S16, reg.S32, reg.S64, reg.S128, reg.S256, reg.S512}
	conv := func(r reg.Register, s reg.Spec) (out reg.Register) {
		defer func() {
			if recover() != nil {
				out = nil
			}
		}()
		switch x := r.(type) {
		case reg.GP:
			switch s {
			case reg.S8L:
				return x.As8L()
			case reg.S8H:
				return x.As8H()
			case reg.S16:
				return x.As16()
			case reg.S32:
				return x.As32()
			case reg.S64:
				return x.As64()
			}
		case reg.Vec:
			switch s {
			case reg.S128:
				return x.AsX()
			case reg.S256:
				return x.AsY()
			case reg.S512:
				return x.AsZ()
			}
		}
		return r // no such conversion method on this class
	}
	hasMethod := func(r reg.Register, s reg.Spec) bool {
		switch r.(type) {
		case reg.GP:
			return s.Size() <= 8
		case reg.Vec:
			return s.Size() >= 16
		}
		return false
	}
	nconv := 0
	add := func(r reg.Register, s reg.Spec, kind string) {
		if !hasMethod(r, s) {
			return
		}
		out := conv(r, s)
		oc := "None"
		if out != nil {
			oc = "(Some " + cReg(out) + ")"
		}
		rows = append(rows, fmt.Sprintf("(%s, %d, %s)", cReg(r), uint64(s.Mask()), oc))
		outs := "fails"
		if out != nil {
			outs = out.Asm()
		}
		o.AddCase(Case{Key: "regs:conversion:" + kind, Desc: fmt.Sprintf("%s (id %d mask %#x) as mask %#x -> %s", r.Asm(), r.ID(), r.Mask(), s.Mask(), outs), Input: map[string]any{"reg": r.Asm(), "mask": r.Mask(), "to": s.Mask()}, Nontrivial: uint16(s.Mask()) != r.Mask()})
		nconv++
	}
	for _, e := range theRegs {
		for _, s := range specs {
			add(e.R, s, "physical")
		}
	}
	coll := reg.NewCollection()
	rng := NewRNG(c.Seed)
	for j := 0; j < 40; j++ {
		var v reg.Register
		switch j % 4 {
		case 0, 1:
			v = coll.GP(Pick(rng, gpSpecs))
		case 2:
			v = coll.Vec(Pick(rng, []reg.Spec{reg.S128, reg.S256, reg.S512}))
		default:
			v = coll.GP8H()
		}
		for _, s := range specs {
			add(v, s, "virtual")
		}
		// chains of conversions keep the identity
		if g, ok := v.(reg.GP); ok {
			w := g.As8H().(reg.GP).As64().(reg.GP).As8L()
			add(w, reg.S8H, "virtual")
		}
	}
	// binding lookups: Allocation.LookupRegister of a virtual register of every width allocated to every
	// physical ID of its family: the table entry with exactly that ID and byte mask, or nothing
	var lrows []string
	lbase := len(o.Plan.Cases)
	seenID := map[reg.ID]bool{}
	for _, e := range theRegs {
		if e.R.Kind() == reg.KindPseudo || seenID[e.R.ID()] {
			continue
		}
		seenID[e.R.ID()] = true
		var vs []reg.Register
		switch e.R.Kind() {
		case reg.KindGP:
			vs = []reg.Register{coll.GP8L(), coll.GP8H(), coll.GP16(), coll.GP32(), coll.GP64()}
		case reg.KindVector:
			vs = []reg.Register{coll.XMM(), coll.YMM(), coll.ZMM()}
		case reg.KindOpmask:
			vs = []reg.Register{coll.K()}
		}
		for _, v := range vs {
			a := reg.NewEmptyAllocation()
			a[v.ID()] = e.R.ID()
			out := a.LookupRegister(v)
			oc := "None"
			outs := "nothing"
			if out != nil {
				oc = "(Some " + cReg(out) + ")"
				outs = out.Asm()
			}
			lrows = append(lrows, fmt.Sprintf("(%d, %d, %s)", uint64(e.R.ID()), uint64(v.Mask()), oc))
			o.AddCase(Case{Key: "regs:binding-lookup", Desc: fmt.Sprintf("virtual register with mask %#x allocated to %s (id %d) binds to %s", v.Mask(), e.R.Asm(), e.R.ID(), outs), Input: map[string]any{"physical": e.R.Asm(), "mask": v.Mask()}, Nontrivial: true})
		}
	}
	// register numbers the hardware does not have (beyond the table, at every distance from it, with the
	// virtual bit set or clear): no view may be found for them by any of the lookup entry points
	for _, kind := range []reg.Kind{reg.KindGP, reg.KindVector, reg.KindOpmask} {
		var vs []reg.Register
		switch kind {
		case reg.KindGP:
			vs = []reg.Register{coll.GP8L(), coll.GP8H(), coll.GP16(), coll.GP32(), coll.GP64()}
		case reg.KindVector:
			vs = []reg.Register{coll.XMM(), coll.YMM(), coll.ZMM()}
		default:
			vs = []reg.Register{coll.K()}
		}
		for _, idx := range []uint32{0, 1, 4, 5, 8, 16, 31, 32, 33, 64, 100, 255, 256, 257, 260, 264, 271, 272, 287, 511, 512, 515, 1024, 4096, 4100, 32768, 65280, 65281, 65535} {
			for _, virt := range []uint32{0, 1} {
				if virt == 1 && idx > 33 {
					continue
				}
				// virt = 1: an allocation entry whose target is itself a virtual register (numbers 8..33 exist as
				// hardware numbers too): no physical view may be found for it
				id := reg.ID(uint32(kind)<<8 | idx<<16 | virt)
				for _, v := range vs {
					a := reg.NewEmptyAllocation()
					a[v.ID()] = id
					out := a.LookupRegister(v)
					oc, outs := "None", "nothing"
					if out != nil {
						oc, outs = "(Some "+cReg(out)+")", out.Asm()
					}
					lrows = append(lrows, fmt.Sprintf("(%d, %d, %s)", uint64(id), uint64(v.Mask()), oc))
					o.AddCase(Case{Key: "regs:binding-lookup:number", Desc: fmt.Sprintf("virtual register with mask %#x allocated to register number %d of kind %d (virtual bit %d) binds to %s", v.Mask(), idx, kind, virt, outs), Input: map[string]any{"kind": uint64(kind), "number": idx, "mask": v.Mask(), "virtual": virt}, Nontrivial: true})
				}
			}
		}
	}
	var b strings.Builder
	b.WriteString(progHeader + "From Avo Require Import Model.RegSpec Props.C20.\n")
	fmt.Fprintf(&b, "Definition lookups : list (N * N * option reg) := %s.\n", cListNL(lrows))
	fmt.Fprintf(&b, "Definition R_lookup_violation := Eval vm_compute in List.map (N.add %d) (idx_where (fun c : N * N * option reg => negb (option_eqb reg_eqb (option_map reg_of_preg (lookup_id regs (fst (fst c)) (snd (fst c)))) (snd c))) lookups).\nPrint R_lookup_violation.\n", lbase)
	b.WriteString("Definition R_bad_entries := Eval vm_compute in regfile_bad regs.\nPrint R_bad_entries.\n")
	b.WriteString("Definition R_complete := Eval vm_compute in complete_ok regs.\nPrint R_complete.\n")
	fmt.Fprintf(&b, "Definition convs : list conv_case := %s.\n", cListNL(rows))
	b.WriteString("Definition R_conv_mismatch := Eval vm_compute in idx_where (fun c => negb (conv_agree regs c)) convs.\nPrint R_conv_mismatch.\n")
	b.WriteString("Definition R_conv_violation := Eval vm_compute in idx_where (fun c => negb (conv_impl_ok regs c)) convs.\nPrint R_conv_violation.\n")
	b.WriteString("Lemma regs_ok : regfile_ok regs = true.\nProof. vm_compute. reflexivity. Qed.\nPrint Assumptions regs_ok.\n")
	b.WriteString("Definition C20_name_denotes := name_denotes regs regs_ok.\nPrint Assumptions C20_name_denotes.\n")
	b.WriteString("Definition C20_ids_unique := fun p q => ids_unique regs p q regs_ok.\nPrint Assumptions C20_ids_unique.\n")
	b.WriteString("Definition C20_no_invented_views := no_invented_views regs regs_ok.\nPrint Assumptions C20_no_invented_views.\n")
	b.WriteString("Definition C20_as_preserves_id_or_fails := fun r m => as_preserves_id_or_fails regs r m regs_ok.\nPrint Assumptions C20_as_preserves_id_or_fails.\n")
	o.WriteFile("Regs.v", b.String())
	o.Stage("Regs.v")
	collectionFile(c)
	maskSetFile(c)
	aliasPairsKeptApart(c)
	basePointerViews(c)
	contextDraws(c)
	o.Oblig("Regs.regs_ok", "Regs.C20_name_denotes", "Regs.C20_ids_unique", "Regs.C20_no_invented_views", "Regs.C20_as_preserves_id_or_fails")
	o.ExpectEmpty("Regs.v", "R_bad_entries", "violation", "a register's name/number/width/byte mask/flags do not denote the hardware register (table row index)")
	o.ExpectTrue("Regs.v", "R_complete", "violation", "the set of views is not exactly the hardware's (missing or invented view, duplicate identity)")
	o.ExpectEmpty("Regs.v", "R_conv_mismatch", "mismatch", "model reg_as vs As8L..As64/AsX..AsZ on physical and virtual registers")
	// the operand types that name one hardware register (al, cl, ax, eax, rax, xmm0) denote exactly that
	// register: no other view, no other index, and never a virtual register whose number happens to coincide
	fixedFile := predicateMatrixFor(c, dumpForms(c.Repo), map[string]bool{"AL": true, "CL": true, "AX": true, "EAX": true, "RAX": true, "XMM0": true}, "Fixed.v")
	defer o.Stage(fixedFile)
	o.ExpectEmpty("Regs.v", "R_lookup_violation", "violation", "binding a virtual register to its allocated physical ID does not give the table entry with exactly that ID and byte mask (a view that does not exist was manufactured, or the width changed)")
	o.ExpectEmpty("Regs.v", "R_conv_violation", "violation", "a view conversion changed the register identity, did not yield the requested width, or manufactured a view")
	o.Plan.Rule = "exhaustive: all physical registers of all families (dumped at run time and cross-checked against a go/ast reading of reg/x86.go) x all width views; 40 virtual registers x all conversions incl. chains; non-trivial = the requested view differs from the current one; distinct by (register, target view)"
	o.Plan.Stats["physical_registers"] = len(theRegs)
	o.Plan.Stats["conversions"] = nconv
	o.Plan.Stats["exhaustive_values"] = true
}
