package main

import (
	"fmt"
	"sort"
	"strings"

	"github.com/mmcloughlin/avo/ir"
	"github.com/mmcloughlin/avo/operand"
	"github.com/mmcloughlin/avo/reg"
	"github.com/mmcloughlin/avo/x86"
)

// declaredActionsCheck: every instruction a constructor builds must list among its Inputs / Outputs what
// the instruction table says about the form that matched: each explicit operand by its action, and each
// implicit operand's register (CQO reads RAX and writes RDX although it has no operand).  Liveness,
// allocation and the frame-pointer rule all start from these two lists.
func declaredActionsCheck(c *Ctx, keyPrefix string, onlyImplicit bool) {
	o := c.Out
	d := dumpForms(c.Repo)
	ctors := readCtors(c.Repo)
	opcIndexOf := map[string]int{}
	for k, v := range d.OpcName {
		opcIndexOf[v] = k
	}
	var names []string
	for n := range ctors {
		names = append(names, n)
	}
	sort.Strings(names)
	rng := NewRNG(c.Seed + 4040)
	has := func(l []operand.Op, x operand.Op) bool {
		for _, y := range l {
			if y == x {
				return true
			}
			if ry, okY := y.(reg.Register); okY {
				if rx, okX := x.(reg.Register); okX && rx.ID() == ry.ID() && rx.Mask()&ry.Mask() == rx.Mask() {
					return true // a wider view of the same register covers it
				}
			}
		}
		return false
	}
	checked, withImplicit := 0, 0
	for _, name := range names {
		ci := ctors[name]
		opc := opcIndexOf[ci.Opcode]
		anyImplicit := false
		for _, fi := range d.ByOpc[opc] {
			for _, op := range d.Forms[fi].Operands {
				if op.Implicit {
					anyImplicit = true
				}
			}
		}
		if onlyImplicit && !anyImplicit {
			continue
		}
		seen := map[string]bool{}
		for _, df := range ci.Doc {
			sig := strings.Join(df[1:], ",")
			if seen[sig] {
				continue
			}
			seen[sig] = true
			coll := reg.NewCollection()
			var ops []operand.Op
			okf := true
			for _, tn := range df[1:] {
				t := strings.ToUpper(tn)
				var ss []operand.Op
				if strings.HasPrefix(t, "REL") {
					ss = []operand.Op{operand.LabelRef("l")}
				} else {
					ss = samplesFor(t, rng, coll)
				}
				if len(ss) == 0 {
					okf = false
					break
				}
				ops = append(ops, ss[0])
			}
			if !okf {
				continue
			}
			// requests for the same opcode that must be refused come first (too many operands, none, a label where
			// a register belongs): a refusal leaves nothing behind that a later valid request could see
			if len(ops) > 0 {
				x86.VerifBuild(opc, ci.Suffixes, append(append([]operand.Op{}, ops...), ops...))
				x86.VerifBuild(opc, ci.Suffixes, nil)
				x86.VerifBuild(opc, ci.Suffixes, append([]operand.Op{operand.LabelRef("nowhere")}, ops[1:]...))
			}
			i, err, _ := x86.VerifBuild(opc, ci.Suffixes, ops)
			if err != nil || i == nil {
				continue
			}
			// the form that matched: the first row of the opcode whose explicit operand types accept the operands
			var fm *x86.VerifForm
			for _, fi := range d.ByOpc[opc] {
				f := d.Forms[fi]
				var ex []x86.VerifOperand
				for _, op := range f.Operands {
					if !op.Implicit {
						ex = append(ex, op)
					}
				}
				if len(ex) != len(ops) {
					continue
				}
				m := true
				for k := range ex {
					if !x86.VerifTypeMatch(ex[k].Type, ops[k]) {
						m = false
					}
				}
				if m {
					ff := f
					fm = &ff
					break
				}
			}
			if fm == nil {
				continue
			}
			checked++
			k := 0
			var problems []string
			imp := false
			for _, op := range fm.Operands {
				var x operand.Op
				what := ""
				if op.Implicit {
					imp = true
					x, what = op.ImplReg, "implicit operand "+op.ImplReg.Asm()
				} else {
					x, what = ops[k], fmt.Sprintf("operand %d (%s)", k, ops[k].Asm())
					k++
				}
				if op.Action&1 != 0 && !coversOperand(i.Inputs, x, has) {
					problems = append(problems, what+" is read according to the instruction table but is not among the inputs")
				}
				if op.Action&2 != 0 && !coversOperand(i.Outputs, x, has) {
					problems = append(problems, what+" is written according to the instruction table but is not among the outputs")
				}
			}
			if imp {
				withImplicit++
			}
			if len(problems) > 0 {
				o.Plan.GoViolations = append(o.Plan.GoViolations, GoViolation{Key: keyPrefix + ":declared-actions:" + ci.Opcode, Desc: fmt.Sprintf("%s built as `%s`: %s", name, instrLineOf(i), strings.Join(problems, "; ")), Replay: map[string]any{"ctor": name, "operands": opsText(ops)}})
			}
		}
	}
	o.Plan.Stats["declared_actions_instances"] = checked
	o.Plan.Stats["declared_actions_with_implicit_operands"] = withImplicit
}

func coversOperand(l []operand.Op, x operand.Op, has func([]operand.Op, operand.Op) bool) bool {
	if _, isMem := x.(operand.Mem); isMem {
		for _, y := range l {
			if y == x {
				return true
			}
		}
		return false
	}
	if _, isReg := x.(reg.Register); !isReg {
		return true // constants and labels are not register reads
	}
	return has(l, x)
}

func instrLineOf(i *ir.Instruction) string {
	var ops []string
	for _, op := range i.Operands {
		ops = append(ops, op.Asm())
	}
	return strings.TrimSpace(i.Opcode + " " + strings.Join(ops, ", "))
}
