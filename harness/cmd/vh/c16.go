package main

import (
	"fmt"
	"regexp"
	"strconv"
	"strings"

	"github.com/mmcloughlin/avo/attr"
	"github.com/mmcloughlin/avo/build"
	"github.com/mmcloughlin/avo/ir"
	"github.com/mmcloughlin/avo/operand"
	"github.com/mmcloughlin/avo/pass"
	"github.com/mmcloughlin/avo/printer"
	"github.com/mmcloughlin/avo/reg"
)

func init() { props["C16"] = c16 }

var textFrameRe = regexp.MustCompile(`^TEXT [^,]*,(?: [^,$]*,)? \$(-?\d+)(?:-(\d+))?$`)

var localUseRe = regexp.MustCompile(`^\tMOVQ\s+AX, (-?\d*)\(SP\)$`)

func c16(c *Ctx) {
	n := 600
	if c.Thorough() {
		n = 20000
	}
	frameHistories(c, n, 1600, false, "Cases.v")
	redeclaredFrames(c)
	// a function refused because its frame cannot hold the base pointer slot (NOFRAME under pressure, NOFRAME
	// writing BP) stays refused when other functions of the file are fine
	{
		brng := NewRNG(c.Seed + 1660)
		ps := pipelineCorpus()
		for k := 0; k < 120; k++ {
			ps = append(ps, genBPProg(brng))
		}
		multiFunctionFiles(c.Out, ps, "frame", 40)
	}
	rule := c.Out.Plan.Rule
	// addressing a local with an index register: the compiled code must keep the index apart from the other
	// live values (pipeline validators of C01 on programs of that shape)
	emitPipelineCases(c, indexedLocalProgs(NewRNG(c.Seed+1602), map[bool]int{false: 40, true: 600}[c.Thorough()]), []pipeCheck{chkDiff, chkAlloc, chkSim, chkDisc}, 20, func(p *Prog, ob *Observed) bool { return true })
	c.Out.Plan.Rule = rule + "; plus functions that address their locals through a virtual index register while up to 12 other values are live (allocation validated)"
}

// frameHistories: histories of AllocLocal calls interleaved with code, compiled and printed; forceBP makes
// every function write the base pointer (C15: the frame that saves it must hold the locals too)
func frameHistories(c *Ctx, n int, seedOff uint64, forceBP bool, file string) {
	o := c.Out
	rng := NewRNG(c.Seed + seedOff)
	var rows []string
	var locals []operand.Mem
	kinds := map[string]int{}
	for j := 0; j < n; j++ {
		ctx := build.NewContext()
		ctx.Function("f")
		fattr := Pick(rng, []attr.Attribute{0, attr.NOSPLIT, attr.NOSPLIT | attr.NOFRAME, attr.NOFRAME})
		ctx.Attributes(fattr)
		ctx.SignatureExpr("func()")
		k := rng.Intn(8)
		if j == 0 {
			k = 0
		}
		if forceBP && k < 2 {
			k = 2
		}
		var sizes []int64
		var offs []int64
		clob := false
		badBase := false
		emit := func() {
			switch rng.Intn(4) {
			case 0:
				ctx.MOVQ(operand.U32(1), reg.RAX)
			case 1:
				if rng.Chance(30) {
					ctx.SYSCALL() // a (system) call in the function does not change the frame rules
				} else {
					ctx.Comment("x")
				}
			case 2:
				if rng.Chance(30) && fattr&attr.NOFRAME == 0 { // a NOFRAME function may not write the base pointer (C15)
					ctx.MOVQ(operand.U32(1), reg.RBP)
					clob = true
				}
			}
		}
		for a := 0; a < k; a++ {
			emit()
			var sz int
			switch rng.Intn(6) {
			case 0:
				sz = 0
			case 1:
				sz = 1 + rng.Intn(7) // unaligned
			case 2:
				sz = 8
			case 3:
				sz = 8 * (1 + rng.Intn(8))
			case 4:
				sz = 1 + rng.Intn(100)
				if rng.Chance(25) {
					sz = []int{128, 200, 256, 300, 512, 1000, 4096}[rng.Intn(7)]
				}
			default:
				sz = []int{16, 32, 64, 3, 12}[rng.Intn(5)]
			}
			m := ctx.AllocLocal(sz)
			if m.Base != reg.StackPointer || m.Index != nil || m.Symbol.Name != "" {
				badBase = true
			}
			// use the local so that it appears in the code
			ctx.MOVQ(reg.RAX, m)
			sizes = append(sizes, int64(sz))
			offs = append(offs, int64(m.Disp))
			if len(locals) < 150 && (m.Disp != 0 || len(locals)%4 == 0) {
				locals = append(locals, m)
			}
		}
		emit()
		emit()
		emit()
		if forceBP && !clob && fattr&attr.NOFRAME == 0 {
			ctx.MOVQ(operand.U32(1), reg.RBP)
			clob = true
		}
		pressure := fattr&attr.NOFRAME == 0 && rng.Chance(12)
		if pressure { // fifteen values live at once: the allocator has to use the base pointer
			var vs []reg.GPVirtual
			for a := 0; a < 15; a++ {
				v := ctx.GP64()
				vs = append(vs, v)
				ctx.MOVQ(operand.U32(uint32(a)), v)
			}
			for a := 1; a < 15; a++ {
				ctx.ADDQ(vs[a], vs[0])
			}
			ctx.MOVQ(vs[0], reg.RAX)
		}
		ctx.RET()
		f, err := ctx.Result()
		if err != nil {
			die(err)
		}
		if err := pass.Compile.Execute(f); err != nil {
			die(fmt.Errorf("compile: %v", err))
		}
		out, err := printer.NewGoAsm(printer.Config{Name: "avo", Pkg: "p"}).Print(f)
		if err != nil {
			die(err)
		}
		frame := int64(-1)
		var printedOffs []int64 // the locals as the printed file addresses them (one `MOVQ AX, d(SP)` per allocation)
		for _, ln := range strings.Split(string(out), "\n") {
			if strings.HasPrefix(ln, "TEXT ") {
				if m := textFrameRe.FindStringSubmatch(ln); m != nil {
					frame, _ = strconv.ParseInt(m[1], 10, 64)
				}
			}
			if m := localUseRe.FindStringSubmatch(ln); m != nil {
				d, _ := strconv.ParseInt("0"+m[1], 10, 64)
				if strings.HasPrefix(m[1], "-") {
					d, _ = strconv.ParseInt(m[1], 10, 64)
				}
				printedOffs = append(printedOffs, d)
			}
		}
		if fmt.Sprint(printedOffs) != fmt.Sprint(offs) {
			o.Plan.GoViolations = append(o.Plan.GoViolations, GoViolation{Key: "locals:printed-address", Desc: fmt.Sprintf("AllocLocal sizes %v returned the offsets %v but the printed function addresses the locals at %v(SP)", sizes, offs, printedOffs), Replay: map[string]any{"sizes": sizes, "text": string(out)}})
		}
		// whether the compiled code writes the base pointer is read off the instructions' own output lists
		for _, nd := range f.Functions()[0].Nodes {
			if in, isI := nd.(*ir.Instruction); isI {
				for _, op := range in.Outputs {
					if r, isR := op.(reg.Register); isR && r.ID() == reg.RBP.ID() {
						clob = true
					}
				}
			}
		}
		if pressure {
			kinds["pressure15"]++
		}
		fb := int64(f.Functions()[0].FrameBytes())
		desc := fmt.Sprintf("sizes=%v clobbers_bp=%v -> offsets=%v frame=%d", sizes, clob, offs, frame)
		idx := o.AddCase(Case{Key: "locals", Desc: desc, Input: map[string]any{"sizes": sizes, "clobbers_bp": clob}, Nontrivial: len(sizes) >= 2})
		if frame != fb || badBase {
			o.Plan.GoViolations = append(o.Plan.GoViolations, GoViolation{Key: "locals:textline", Desc: fmt.Sprintf("case %d: TEXT line frame %d differs from FrameBytes %d, or a local is not a plain SP-relative address: %s", idx, frame, fb, desc), Replay: map[string]any{"sizes": sizes}})
		}
		zs := func(l []int64) string {
			ss := make([]string, len(l))
			for i, x := range l {
				ss[i] = cZ(x)
			}
			return cList(ss)
		}
		rows = append(rows, fmt.Sprintf("(%s, %s, %s, %s)", zs(sizes), cBool(clob), zs(offs), cZ(frame)))
		kinds[fmt.Sprintf("allocs=%d", len(sizes))]++
		if clob {
			kinds["clobbers_bp"]++
		}
	}
	var b strings.Builder
	b.WriteString(coqHeader + "From Avo Require Import Model.Frame.\nOpen Scope Z_scope.\n")
	fmt.Fprintf(&b, "Definition cases : list frame_case := %s.\n", cListNL(rows))
	b.WriteString("Definition R_mismatch := Eval vm_compute in indices_where_Z (fun c => negb (frame_agree c)) cases.\nPrint R_mismatch.\n")
	b.WriteString("Definition R_violation := Eval vm_compute in indices_where_Z (fun c => negb (frame_impl_ok c)) cases.\nPrint R_violation.\n")
	o.WriteFile(file, b.String())
	o.Stage(file)
	o.ExpectEmpty(file, "R_mismatch", "mismatch", "bump-allocator model vs Context.AllocLocal offsets and the frame size on the TEXT line")
	o.ExpectEmpty(file, "R_violation", "violation", "a returned local region leaves the declared frame, overlaps another region, or meets the frame-pointer save slot")
	// addressing inside a local: the regions, offset and indexed through the operand helpers
	memHelperFile(o, NewRNG(c.Seed+1601), 3*len(locals), locals, "MemOps.v")
	o.Plan.Rule = "random histories of 0..7 AllocLocal calls (sizes 0, unaligned 1..7, 8, multiples of 8, arbitrary up to 100) interleaved with instruction emission, with and without a write to the base pointer (named, or chosen by the allocator under pressure of fifteen live values); compiled with pass.Compile and printed; non-trivial = at least two allocations; distinct by (sizes, clobber)"
	o.Plan.Stats["histories"] = n
	o.Plan.Stats["shape"] = kinds
}

// redeclaredFrames: a generator that emits a function in several steps and declares its name again at each
// step (or simply declares two functions of one name).  Whatever the builder makes of that, every TEXT block
// of the printed file must hold the locals its own instructions address: each region inside the block's
// declared frame, regions of positive size pairwise disjoint within a block.
func redeclaredFrames(c *Ctx) {
	o := c.Out
	rng := NewRNG(c.Seed + 1650)
	bad := 0
	for h := 0; h < 60; h++ {
		ctx := build.NewContext()
		var sizes []int
		var steps []string
		decl := func() {
			ctx.Function("f")
			ctx.Attributes(attr.NOSPLIT)
			ctx.SignatureExpr("func()")
			steps = append(steps, "Function(f)")
		}
		decl()
		n := 2 + rng.Intn(6)
		for a := 0; a < n; a++ {
			if a > 0 && rng.Chance(35) {
				decl()
			}
			sz := []int{8, 16, 32, 8, 24, 64, 1, 4}[rng.Intn(8)]
			m := ctx.AllocLocal(sz)
			ctx.MOVQ(reg.RAX, m)
			sizes = append(sizes, sz)
			steps = append(steps, fmt.Sprintf("AllocLocal(%d)", sz))
		}
		ctx.RET()
		idx := o.AddCase(Case{Key: "locals:redeclared", Desc: strings.Join(steps, "; "), Input: map[string]any{"steps": steps}, Nontrivial: true})
		f, err := ctx.Result()
		if err != nil || pass.Compile.Execute(f) != nil {
			continue // refusing the history is an acceptable answer
		}
		out, err := printer.NewGoAsm(printer.Config{Name: "avo", Pkg: "p"}).Print(f)
		if err != nil {
			continue
		}
		frame := int64(-1)
		k := 0
		var regions [][2]int64
		problem := ""
		for _, ln := range strings.Split(string(out), "\n") {
			if strings.HasPrefix(ln, "TEXT ") {
				frame = -1
				if m := textFrameRe.FindStringSubmatch(ln); m != nil {
					frame, _ = strconv.ParseInt(m[1], 10, 64)
				}
				regions = nil
			}
			if m := localUseRe.FindStringSubmatch(ln); m != nil && k < len(sizes) && problem == "" {
				d, _ := strconv.ParseInt("0"+m[1], 10, 64)
				sz := int64(sizes[k])
				k++
				if d+sz > frame {
					problem = fmt.Sprintf("local %d (%d bytes) is addressed at %d(SP) in a block whose frame is %d bytes", k, sz, d, frame)
				}
				for _, rg := range regions {
					if d < rg[0]+rg[1] && rg[0] < d+sz {
						problem = fmt.Sprintf("local %d (%d bytes at %d(SP)) overlaps the local at %d(SP) (%d bytes) of the same block", k, sz, d, rg[0], rg[1])
					}
				}
				regions = append(regions, [2]int64{d, sz})
			}
		}
		if k != len(sizes) && problem == "" {
			problem = fmt.Sprintf("%d locals were allocated and used, the printed file addresses %d", len(sizes), k)
		}
		if problem != "" && bad < 5 {
			bad++
			o.Plan.GoViolations = append(o.Plan.GoViolations, GoViolation{Key: "locals:redeclared", Desc: fmt.Sprintf("case %d: %s: %s", idx, strings.Join(steps, "; "), problem), Replay: map[string]any{"steps": steps, "text": string(out)}})
		}
	}
}
