package main

import (
	"encoding/hex"
	"fmt"
	"math/big"
	"os"
	"os/exec"
	"path/filepath"
	"regexp"
	"sort"
	"strings"
	"sync"

	"golang.org/x/arch/x86/x86asm"

	"github.com/mmcloughlin/avo/ir"
	"github.com/mmcloughlin/avo/operand"
	"github.com/mmcloughlin/avo/printer"
	"github.com/mmcloughlin/avo/reg"
	"github.com/mmcloughlin/avo/x86"
)

func init() { props["C05"] = c05 }

type inst05 struct {
	ImmType string // operand type of the immediate position the constant was offered to ("" = unknown)
	I       *ir.Instruction
	Class   string // what this instance is probing
	Text    string
	// results
	AsmErr string
	Bytes  []byte
}

func printOne(i *ir.Instruction) string {
	fn := ir.NewFunction("f")
	fn.Attributes = 4 // NOSPLIT
	fn.AddInstruction(cloneInstr(i))
	if i.IsBranch {
		if l := i.TargetLabel(); l != nil {
			fn.AddLabel(*l)
		}
	}
	if !strings.HasPrefix(i.Opcode, "PUSH") && !strings.HasPrefix(i.Opcode, "POP") {
		fn.AddInstruction(&ir.Instruction{Opcode: "RET", IsTerminal: true})
	}
	f := ir.NewFile()
	f.Includes = []string{"textflag.h"}
	f.AddSection(fn)
	out, err := printer.NewGoAsm(printer.Config{Name: "avo", Pkg: "p"}).Print(f)
	if err != nil {
		die(err)
	}
	return string(out)
}

var objdumpLine = regexp.MustCompile(`^\s+\S+\s+0x[0-9a-f]+\s+([0-9a-f]+)\s`)

func assembleOne(dir string, k int, src string, inc string) (asmErr string, code []byte) {
	fn := filepath.Join(dir, fmt.Sprintf("i%d.s", k))
	ob := filepath.Join(dir, fmt.Sprintf("i%d.o", k))
	os.WriteFile(fn, []byte(src), 0o644)
	defer os.Remove(fn)
	defer os.Remove(ob)
	out, err := exec.Command("go", "tool", "asm", "-I", inc, "-p", "main", "-o", ob, fn).CombinedOutput()
	if err != nil {
		msg := strings.TrimSpace(string(out))
		msg = regexp.MustCompile(`(?m)^\S*i\d+\.s:\d+: `).ReplaceAllString(msg, "")
		return firstLine(msg), nil
	}
	out, err = exec.Command("go", "tool", "objdump", ob).CombinedOutput()
	if err != nil {
		return "", nil
	}
	var all []byte
	for _, ln := range strings.Split(string(out), "\n") {
		if m := objdumpLine.FindStringSubmatch(ln); m != nil {
			b, _ := hex.DecodeString(m[1])
			all = append(all, b...)
		}
	}
	// strip alignment padding (int3) and the final RET we appended
	for len(all) > 0 && all[len(all)-1] == 0xcc {
		all = all[:len(all)-1]
	}
	if len(all) > 0 && all[len(all)-1] == 0xc3 {
		all = all[:len(all)-1]
	}
	return "", all
}

// hardware identity of an x86asm register: (class, number, bytes, high-byte?)
func decodeReg(r x86asm.Reg) (class string, num int, size int, high bool, ok bool) {
	switch {
	case r >= x86asm.AL && r <= x86asm.BL:
		return "gp", int(r - x86asm.AL), 1, false, true
	case r >= x86asm.AH && r <= x86asm.BH:
		return "gp", int(r - x86asm.AH), 1, true, true
	case r >= x86asm.SPB && r <= x86asm.DIB:
		return "gp", 4 + int(r-x86asm.SPB), 1, false, true
	case r >= x86asm.R8B && r <= x86asm.R15B:
		return "gp", 8 + int(r-x86asm.R8B), 1, false, true
	case r >= x86asm.AX && r <= x86asm.R15W:
		return "gp", int(r - x86asm.AX), 2, false, true
	case r >= x86asm.EAX && r <= x86asm.R15L:
		return "gp", int(r - x86asm.EAX), 4, false, true
	case r >= x86asm.RAX && r <= x86asm.R15:
		return "gp", int(r - x86asm.RAX), 8, false, true
	case r >= x86asm.X0 && r <= x86asm.X15:
		return "vec", int(r - x86asm.X0), 16, false, true
	}
	return "", 0, 0, false, false
}

func avoReg(r reg.Register) (class string, num int, size int, high bool) {
	p := reg.ToPhysical(r)
	switch p.Kind() {
	case reg.KindGP:
		return "gp", int(p.PhysicalIndex()), int(p.Size()), p.Mask() == 2
	case reg.KindVector:
		return "vec", int(p.PhysicalIndex()), int(p.Size()), false
	case reg.KindOpmask:
		return "k", int(p.PhysicalIndex()), 8, false
	}
	return "pseudo", 0, 0, false
}

type dreg struct {
	class     string
	num, size int
	high      bool
}
type dmemT struct {
	hasBase, hasIndex bool
	base, index       dreg
	scale             int
	disp              int64
}
type decoded struct {
	text  string
	regs  []dreg
	mem   *dmemT
	imm   []int64
	isMov bool
}

func fromX86asm(d x86asm.Inst) decoded {
	out := decoded{text: x86asm.IntelSyntax(d, 0, nil), isMov: d.Op == x86asm.MOV}
	for _, a := range d.Args {
		switch x := a.(type) {
		case x86asm.Reg:
			if c, n, s, h, ok := decodeReg(x); ok {
				out.regs = append(out.regs, dreg{c, n, s, h})
			}
		case x86asm.Mem:
			m := &dmemT{scale: int(x.Scale), disp: int64(int32(x.Disp))}
			if c, n, s, h, ok := decodeReg(x.Base); ok {
				m.hasBase, m.base = true, dreg{c, n, s, h}
			}
			if c, n, s, h, ok := decodeReg(x.Index); ok {
				m.hasIndex, m.index = true, dreg{c, n, s, h}
			}
			out.mem = m
		case x86asm.Imm:
			out.imm = append(out.imm, int64(x))
		}
	}
	return out
}

var gnuRegRe = regexp.MustCompile(`^(?:([xyz])mm(\d+)|k([0-7])|r(\d+)([dwb]?)|(r|e)?([abcd])x|([abcd])([lh])|(r|e)?(si|di|sp|bp)(l?))$`)

func gnuReg(t string) (dreg, bool) {
	m := gnuRegRe.FindStringSubmatch(t)
	if m == nil {
		return dreg{}, false
	}
	atoi := func(s string) int { n := 0; fmt.Sscanf(s, "%d", &n); return n }
	switch {
	case m[1] != "":
		return dreg{"vec", atoi(m[2]), map[string]int{"x": 16, "y": 32, "z": 64}[m[1]], false}, true
	case m[3] != "":
		return dreg{"k", atoi(m[3]), 8, false}, true
	case m[4] != "":
		return dreg{"gp", atoi(m[4]), map[string]int{"": 8, "d": 4, "w": 2, "b": 1}[m[5]], false}, true
	case m[7] != "":
		return dreg{"gp", strings.Index("acdb", m[7]), map[string]int{"r": 8, "e": 4, "": 2}[m[6]], false}, true
	case m[8] != "":
		return dreg{"gp", strings.Index("acdb", m[8]), 1, m[9] == "h"}, true
	case m[11] != "":
		n := map[string]int{"sp": 4, "bp": 5, "si": 6, "di": 7}[m[11]]
		if m[12] == "l" {
			return dreg{"gp", n, 1, false}, true
		}
		return dreg{"gp", n, map[string]int{"r": 8, "e": 4, "": 2}[m[10]], false}, true
	}
	return dreg{}, false
}

var gnuLineRe = regexp.MustCompile(`(?m)^\s*0:\s+((?:[0-9a-f]{2} )+)\s*(.*)$`)
var gnuContRe = regexp.MustCompile(`(?m)^\s*[0-9a-f]+:\s+((?:[0-9a-f]{2} )+)\s*$`)

// gnuDecode disassembles one instruction with GNU objdump (VEX/EVEX encodings)
func gnuDecode(dir string, k int, code []byte) (decoded, bool) {
	fn := filepath.Join(dir, fmt.Sprintf("b%d.bin", k))
	os.WriteFile(fn, code, 0o644)
	defer os.Remove(fn)
	out, err := exec.Command("objdump", "-D", "-b", "binary", "-mi386:x86-64", "-M", "intel", fn).Output()
	if err != nil {
		return decoded{}, false
	}
	m := gnuLineRe.FindStringSubmatch(string(out))
	if m == nil || strings.Contains(m[2], "(bad)") {
		return decoded{}, false
	}
	// the instruction must consume all bytes: no second instruction line
	lines := 0
	for _, ln := range strings.Split(string(out), "\n") {
		if regexp.MustCompile(`^\s*[0-9a-f]+:\s+(?:[0-9a-f]{2} )+\s*\S`).MatchString(ln) {
			lines++
		}
	}
	if lines != 1 {
		return decoded{}, false
	}
	text := strings.TrimSpace(m[2])
	d := decoded{text: text}
	sp := strings.IndexAny(text, " \t")
	if sp < 0 {
		return d, true
	}
	ops := text[sp+1:]
	// memory operand
	if i := strings.Index(ops, "["); i >= 0 {
		j := strings.Index(ops, "]")
		inner := ops[i+1 : j]
		ops = ops[:i] + ops[j+1:]
		mm := &dmemT{scale: 1}
		inner = strings.ReplaceAll(inner, "-", "+-")
		for _, part := range strings.Split(inner, "+") {
			part = strings.TrimSpace(part)
			if part == "" {
				continue
			}
			if strings.Contains(part, "*") {
				ps := strings.Split(part, "*")
				if r, ok := gnuReg(ps[0]); ok {
					mm.hasIndex, mm.index = true, r
					fmt.Sscanf(ps[1], "%d", &mm.scale)
				}
			} else if r, ok := gnuReg(part); ok {
				if !mm.hasBase {
					mm.hasBase, mm.base = true, r
				} else {
					mm.hasIndex, mm.index = true, r
				}
			} else {
				var v int64
				neg := strings.HasPrefix(part, "-")
				fmt.Sscanf(strings.TrimPrefix(strings.TrimPrefix(part, "-"), "0x"), "%x", &v)
				if neg {
					v = -v
				}
				mm.disp = v
			}
		}
		d.mem = mm
	}
	for _, tok := range regexp.MustCompile(`[,\s{}]+`).Split(ops, -1) {
		if r, ok := gnuReg(tok); ok {
			d.regs = append(d.regs, r)
		} else if strings.HasPrefix(tok, "0x") {
			var v int64
			fmt.Sscanf(tok[2:], "%x", &v)
			d.imm = append(d.imm, v)
		}
	}
	return d, true
}

// compareDecoded checks the explicit operands of an avo instruction against the decoded machine instruction
func compareDecoded(i *ir.Instruction, d decoded) (problems []string) {
	dregs := d.regs
	dmem := d.mem
	dimm := d.imm
	for _, op := range i.Operands {
		switch o := op.(type) {
		case reg.Register:
			c, n, s, h := avoReg(o)
			if c == "pseudo" {
				continue
			}
			found := false
			sameNum := false
			all := dregs
			if dmem != nil && dmem.hasIndex && dmem.index.class == "vec" {
				all = append(append([]dreg{}, dregs...), dmem.index)
			}
			for _, dr := range all {
				if dr.class == c && dr.num == n {
					sameNum = true
					if dr.size == s && dr.high == h {
						found = true
					}
				}
			}
			if !found && sameNum && i.Opcode == "MOVLQZX" {
				found = true // by definition the zero-extending 32-bit move
			}
			// MOVQ $imm32, r64 is assembled as the zero-extending 32-bit move
			if !found && sameNum && i.Opcode == "MOVQ" && len(i.Operands) == 2 {
				if _, isU := i.Operands[0].(operand.U32); isU {
					found = true
				}
				if v, isU := i.Operands[0].(operand.U64); isU && v < 1<<32 {
					found = true
				}
			}
			if !found {
				// implicit-in-encoding registers (AL/AX/EAX/RAX accumulators, CL shift count, DX port) are not listed by the decoder
				implicitEnc := (n == 0 || (n == 1 && s == 1) || (n == 2 && s == 2)) && c == "gp" && !sameNum
				if implicitEnc && len(dregs) < len(regsOf(i)) {
					continue
				}
				if sameNum {
					problems = append(problems, fmt.Sprintf("register %s: the machine instruction uses hardware register %d through a different view", o.Asm(), n))
				} else {
					problems = append(problems, fmt.Sprintf("register %s (hw %s%d) is not an operand of the machine instruction", o.Asm(), c, n))
				}
			}
		case operand.Mem:
			if o.Symbol.Name != "" || reg.ToPhysical(o.Base) == nil || o.Base.Kind() == reg.KindPseudo {
				continue // FP/SB/SP-relative: rewritten by the assembler
			}
			if dmem == nil {
				problems = append(problems, "memory operand "+o.Asm()+" is not a memory operand of the machine instruction")
				continue
			}
			_, bn, _, _ := avoReg(o.Base)
			if !dmem.hasBase || dmem.base.num != bn || dmem.base.size != 8 {
				problems = append(problems, fmt.Sprintf("memory operand %s: base register differs (%+v)", o.Asm(), dmem.base))
			}
			if o.Index != nil {
				ic, in, is, _ := avoReg(o.Index)
				if !dmem.hasIndex || dmem.index.class != ic || dmem.index.num != in || dmem.index.size != is || (dmem.scale != int(o.Scale) && !(o.Scale == 1 && dmem.scale == 0)) {
					problems = append(problems, fmt.Sprintf("memory operand %s: index/scale differ (%+v*%d)", o.Asm(), dmem.index, dmem.scale))
				}
			}
			if o.Index == nil && dmem.hasIndex {
				problems = append(problems, fmt.Sprintf("memory operand %s: machine instruction has index %+v", o.Asm(), dmem.index))
			}
			// EVEX compresses disp8 by the access width: GNU objdump prints the effective displacement
			if int64(o.Disp) != dmem.disp {
				problems = append(problems, fmt.Sprintf("memory operand %s: displacement %d in the machine instruction", o.Asm(), dmem.disp))
			}
		case operand.Constant:
			var want int64
			var uw uint64
			bits := uint(o.Bytes() * 8)
			switch v := o.(type) {
			case operand.U8:
				uw, want = uint64(v), int64(v)
			case operand.U16:
				uw, want = uint64(v), int64(v)
			case operand.U32:
				uw, want = uint64(v), int64(v)
			case operand.U64:
				uw, want = uint64(v), int64(v)
			case operand.I8:
				uw, want = uint64(uint8(v)), int64(v)
			case operand.I16:
				uw, want = uint64(uint16(v)), int64(v)
			case operand.I32:
				uw, want = uint64(uint32(v)), int64(v)
			case operand.I64:
				uw, want = uint64(v), int64(v)
			default:
				continue
			}
			ok := false
			for _, di := range dimm {
				// the decoder reports sign-extended immediates as negative numbers and raw
				// (byte/word-sized, zero-extended) ones as non-negative numbers
				if di == want {
					ok = true
				}
				if di >= 0 && bits < 64 && uint64(di) < (1<<bits) && uint64(di) == uw {
					ok = true // the instruction consumes exactly the constant's bits
				}
				// operation narrower than 64 bits: equal as bit patterns of the operation size
				opbits := uint(0)
				for _, dr := range dregs {
					if dr.class == "gp" && uint(dr.size*8) > opbits {
						opbits = uint(dr.size * 8)
					}
				}
				if opbits == 0 { // no register operand: the width of the memory access the decoder prints
					for w, pfx := range map[uint]string{8: "byte ptr", 16: " word ptr", 32: "dword ptr"} {
						if strings.Contains(" "+strings.ToLower(d.text), pfx) && !(w == 16 && (strings.Contains(strings.ToLower(d.text), "dword ptr") || strings.Contains(strings.ToLower(d.text), "qword ptr"))) {
							opbits = w
						}
					}
				}
				if opbits >= bits && opbits < 64 && uint64(di)&((1<<opbits)-1) == uint64(want)&((1<<opbits)-1) {
					ok = true
				}
				if bits == 64 && uint64(di) == uw {
					ok = true
				}
				if i.Opcode == "MOVQ" && uw < 1<<32 && uint64(uint32(di)) == uw {
					ok = true // assembled as the zero-extending 32-bit move
				}
			}
			_ = uw
			if !ok && len(dimm) > 0 {
				problems = append(problems, fmt.Sprintf("constant %s (%d): the machine instruction's immediate is %v", o.Asm(), want, dimm))
			}
		}
	}
	return
}

func regsOf(i *ir.Instruction) []reg.Register {
	var rs []reg.Register
	for _, op := range i.Operands {
		if r, ok := op.(reg.Register); ok {
			rs = append(rs, r)
		}
	}
	return rs
}

func physSamples(t string, r *RNG) []operand.Op {
	coll := reg.NewCollection()
	var out []operand.Op
	if t == "K" {
		return []operand.Op{Pick(r, []reg.Register{reg.K1, reg.K2, reg.K7})}
	}
	if t == "IMM8" && r.Chance(80) {
		return []operand.Op{operand.U8(r.Intn(256))}
	}
	for _, s := range samplesFor(t, r, coll) {
		phys := true
		for _, rr := range operand.Registers(s) {
			if reg.ToPhysical(rr) == nil {
				phys = false
			}
		}
		if phys {
			out = append(out, s)
		}
	}
	return out
}

func c05(c *Ctx) {
	o := c.Out
	d := dumpForms(c.Repo)
	o.WriteFile("Tab.v", formsTab(c, d))
	o.Stage("Tab.v")
	o.Oblig("Tab.info_constants_ok")
	rng := NewRNG(c.Seed + 500)
	ctors := readCtors(c.Repo)
	opcIndexOf := map[string]int{}
	for k, v := range d.OpcName {
		opcIndexOf[v] = k
	}
	var insts []*inst05
	add := func(i *ir.Instruction, err error) {
		if err == nil && i != nil {
			insts = append(insts, &inst05{I: i})
		}
	}
	// (1) one instance per documented form of a sample of constructors (all in thorough)
	var names []string
	for n := range ctors {
		names = append(names, n)
	}
	sort.Strings(names)
	every, reps := 1, 1
	if c.Thorough() {
		reps = 3 // three operand choices per documented form
	}
	for k, name := range names {
		if k%every != int(c.Seed)%every {
			continue
		}
		ci := ctors[name]
		for _, df0 := range ci.Doc {
			for rep := 0; rep < reps; rep++ {
				df := df0
				var ops []operand.Op
				okf := true
				for _, tn := range df[1:] {
					ss := physSamples(strings.ToUpper(tn), rng)
					if len(ss) == 0 {
						okf = false
						break
					}
					ops = append(ops, Pick(rng, ss))
				}
				if !okf {
					continue
				}
				i, err, _ := x86.VerifBuild(opcIndexOf[ci.Opcode], ci.Suffixes, ops)
				for try := 0; try < 6 && err == nil && i != nil && !isEvex(i) && hasHiVec(i); try++ {
					for k, tn := range df[1:] {
						if up := strings.ToUpper(tn); up == "XMM" || up == "YMM" || strings.HasPrefix(up, "VM") {
							ops[k] = Pick(rng, physSamples(up, rng))
						}
					}
					i, err, _ = x86.VerifBuild(opcIndexOf[ci.Opcode], ci.Suffixes, ops)
				}
				if err == nil && i != nil && (i.Opcode != ci.Opcode || strings.Join(i.Suffixes, ".") != strings.Join(ci.Suffixes, ".")) {
					c.Out.Plan.GoViolations = append(c.Out.Plan.GoViolations, GoViolation{Key: "encodes-differently:constructor-built-other-opcode-or-suffixes:" + name,
						Desc: fmt.Sprintf("constructor %s%v built `%s`: not the opcode/suffixes it is named after (%s.%s)", name, opsText(ops), instrLine(i), ci.Opcode, strings.Join(ci.Suffixes, ".")), Replay: map[string]any{"ctor": name, "operands": opsText(ops)}})
				}
				add(i, err)
			}
		}
	}
	for k := range insts {
		insts[k].Class = "form"
	}
	// fixed-register operand types (al, cl, ax, eax, rax, xmm0) offered every other view of the same
	// hardware register: whatever is accepted must still assemble to that very view
	fixedViews := map[string][]operand.Op{
		"AL": {reg.AH, reg.AX, reg.EAX, reg.RAX}, "AX": {reg.AL, reg.AH, reg.EAX, reg.RAX}, "EAX": {reg.AL, reg.AX, reg.RAX}, "RAX": {reg.AL, reg.AX, reg.EAX},
		"CL": {reg.CH, reg.CX, reg.ECX, reg.RCX}, "XMM0": {reg.Y0, reg.Z0},
	}
	markF := len(insts)
	for _, name := range names {
		ci := ctors[name]
		for _, df := range ci.Doc {
			for slot, tn := range df[1:] {
				alts, isFixed := fixedViews[strings.ToUpper(tn)]
				if !isFixed {
					continue
				}
				for _, alt := range alts {
					var ops []operand.Op
					okf := true
					for k, t2 := range df[1:] {
						if k == slot {
							ops = append(ops, alt)
							continue
						}
						ss := physSamples(strings.ToUpper(t2), rng)
						if len(ss) == 0 {
							okf = false
							break
						}
						ops = append(ops, Pick(rng, ss))
					}
					if okf {
						i, err, _ := x86.VerifBuild(opcIndexOf[ci.Opcode], ci.Suffixes, ops)
						add(i, err)
					}
				}
			}
		}
	}
	for k := markF; k < len(insts); k++ {
		insts[k].Class = "fixed-register-view"
	}
	// dedicated probes of classes avo accepts but the assembler refuses
	mark0 := len(insts)
	add(x86.ADDPS(reg.X20, reg.X1))
	add(x86.VPADDD(reg.Y20, reg.Y1, reg.Y2))
	add(x86.VPADDD(reg.Z1, reg.Z2, reg.K0, reg.Z3))
	add(x86.VMOVDQU64(reg.Z1, reg.K0, reg.Z3))
	add(x86.JMP(operand.Rel(16)))
	for k := mark0; k < len(insts); k++ {
		insts[k].Class = "probe"
	}
	// (2) every register view of every class through plain moves
	for _, p := range theRegs {
		r := p.R
		switch {
		case p.Kind == 1 && p.Size == 1:
			add(x86.MOVB(r, reg.BL))
			add(x86.MOVB(reg.CL, r))
			add(x86.MOVB(r, reg.SIB)) // with a REX-only partner
			add(x86.MOVB(r, reg.R8B))
		case p.Kind == 1 && p.Size == 2:
			add(x86.MOVW(r, reg.BX))
			add(x86.MOVW(reg.CX, r))
		case p.Kind == 1 && p.Size == 4:
			add(x86.MOVL(r, reg.EBX))
			add(x86.MOVL(reg.ECX, r))
		case p.Kind == 1 && p.Size == 8:
			add(x86.MOVQ(r, reg.RBX))
			add(x86.MOVQ(reg.RCX, r))
			add(x86.MOVQ(operand.Mem{Base: r, Disp: 8}, reg.RAX)) // as base
			if p.Idx != 4 {
				add(x86.MOVQ(operand.Mem{Base: reg.RDX, Index: r, Scale: 4}, reg.RAX)) // as index
			}
		case p.Kind == 2 && p.Size == 16:
			add(x86.MOVOU(r, reg.X1))
			add(x86.PADDL(reg.X2, r))
		case p.Kind == 2 && p.Size == 32:
			add(x86.VMOVDQU(r, reg.Y1))
		case p.Kind == 2 && p.Size == 64:
			add(x86.VMOVDQU64(r, reg.Z1))
		case p.Kind == 3:
			add(x86.KMOVQ(r, reg.K1))
			add(x86.KMOVQ(reg.RAX, r))
		}
	}
	for k := range insts {
		if insts[k].Class == "" {
			insts[k].Class = "register-view"
		}
	}
	// (3) boundary immediates of each signedness and width
	imm8 := []operand.Op{operand.U8(0), operand.U8(127), operand.U8(128), operand.U8(255), operand.I8(-128), operand.I8(-1), operand.I8(127)}
	imm16 := []operand.Op{operand.U16(0x7fff), operand.U16(0x8000), operand.U16(0xffff), operand.I16(-32768), operand.I16(-1)}
	imm32 := []operand.Op{operand.U32(0x7fffffff), operand.U32(0x80000000), operand.U32(0xffffffff), operand.I32(-2147483648), operand.I32(-1), operand.I32(2147483647)}
	imm64 := []operand.Op{operand.U64(0x7fffffffffffffff), operand.U64(0x8000000000000000), operand.U64(0xffffffffffffffff), operand.U64(0xffffffff), operand.I64(-1), operand.I64(-9223372036854775808)}
	mark := len(insts)
	for _, v := range imm8 {
		add(x86.ADDB(v, reg.BL))
		add(x86.ADDQ(v, reg.RBX))
		add(x86.SHLQ(v, reg.RBX))
		add(x86.RORL(v, reg.EBX))
		add(x86.MOVB(v, reg.BL))
		add(x86.PSHUFD(v, reg.X1, reg.X2))
		add(x86.CMPB(reg.BL, v))
		add(x86.BTQ(v, reg.RBX))
	}
	for _, v := range imm16 {
		add(x86.ADDW(v, reg.BX))
		add(x86.MOVW(v, reg.BX))
		add(x86.CMPW(reg.BX, v))
	}
	for _, v := range imm32 {
		add(x86.ADDL(v, reg.EBX))
		add(x86.ADDQ(v, reg.RBX))
		add(x86.ANDQ(v, reg.RBX))
		add(x86.MOVL(v, reg.EBX))
		add(x86.MOVQ(v, reg.RBX))
		add(x86.MOVQ(v, operand.Mem{Base: reg.RBX}))
		add(x86.CMPQ(reg.RBX, v))
		add(x86.TESTQ(v, reg.RBX))
		add(x86.IMUL3Q(v, reg.RBX, reg.RCX))
		add(x86.XORQ(v, reg.RAX))
	}
	for _, v := range imm64 {
		add(x86.MOVQ(v, reg.RBX))
	}
	for k := mark; k < len(insts); k++ {
		insts[k].Class = "immediate"
	}
	// (4) addressing-mode shapes
	mark = len(insts)
	for _, b := range []reg.Register{reg.RAX, reg.RSP, reg.RBP, reg.R12, reg.R13, reg.EAX, reg.AX, reg.AL} {
		for _, disp := range []int{0, 8, -8, 127, 128, -129, 1 << 20} {
			add(x86.MOVQ(operand.Mem{Base: b, Disp: disp}, reg.RCX))
		}
		for _, sc := range []uint8{1, 2, 3, 4, 8} {
			add(x86.MOVQ(operand.Mem{Base: b, Index: reg.R9, Scale: sc, Disp: 16}, reg.RCX))
		}
	}
	// constants that are not integers offered where an immediate is expected: whatever a constructor
	// accepts must still assemble to that constant
	for _, k := range []operand.Op{operand.F32(1.5), operand.F64(1.5), operand.F32(2), operand.String("A"), operand.String("ab"), operand.String("abcd"), operand.String("8 bytes!")} {
		add(x86.MOVB(k, reg.AL))
		add(x86.MOVW(k, reg.BX))
		add(x86.MOVL(k, reg.EAX))
		add(x86.MOVQ(k, reg.RAX))
		add(x86.ADDL(k, reg.ECX))
		add(x86.CMPL(operand.Mem{Base: reg.RSI}, k))
		add(x86.PSHUFD(k, reg.X1, reg.X2))
		add(x86.MOVQ(k, operand.Mem{Base: reg.RBX}))
	}
	// integer constants of every width and sign offered wherever an immediate is expected: for each immediate
	// operand type a few constructors that take it (all of them in the thorough tier); whatever a
	// constructor accepts must assemble to that very constant
	{
		universe := []operand.Op{
			operand.U8(0), operand.U8(1), operand.U8(3), operand.U8(4), operand.U8(127), operand.U8(128), operand.U8(255),
			operand.I8(-128), operand.I8(-125), operand.I8(-2), operand.I8(-1), operand.I8(0), operand.I8(1), operand.I8(3), operand.I8(127),
			operand.U16(3), operand.U16(255), operand.U16(256), operand.U16(65535), operand.I16(-1), operand.I16(-32768), operand.I16(3),
			operand.U32(3), operand.U32(65536), operand.U32(1<<32 - 1), operand.I32(-1), operand.I32(-(1 << 31)), operand.I32(3),
			operand.U64(3), operand.U64(1 << 32), operand.U64(1<<64 - 1), operand.I64(-1), operand.I64(-(1 << 63)), operand.I64(3),
		}
		perType := map[string]int{}
		limit := 3
		if c.Thorough() {
			limit = 1 << 30
		}
		immTypes := map[string]bool{"1": true, "3": true, "IMM2U": true, "IMM8": true, "IMM16": true, "IMM32": true, "IMM64": true}
		start := int(c.Seed) % len(names)
		for off := range names {
			name := names[(start+off)%len(names)]
			ci := ctors[name]
			for _, df := range ci.Doc {
				pos, ty := -1, ""
				for q, tn := range df[1:] {
					if immTypes[strings.ToUpper(tn)] {
						pos, ty = q, strings.ToUpper(tn)
					}
				}
				// the moves and the common arithmetic take every constant in every tier (a 64-bit move is where a
				// 32-bit immediate is extended in the way that differs from the arithmetic forms)
				always := map[string]bool{"MOVQ": true, "MOVL": true, "MOVW": true, "MOVB": true, "ADDQ": true, "CMPQ": true, "PUSHQ": true, "IMUL3Q": true, "TESTQ": true, "ANDL": true}
				if pos < 0 || (perType[ty] >= limit && !always[name]) {
					continue
				}
				var ops []operand.Op
				okf := true
				for q, tn := range df[1:] {
					if q == pos {
						ops = append(ops, nil)
						continue
					}
					ss := physSamples(strings.ToUpper(tn), rng)
					if len(ss) == 0 || strings.HasPrefix(strings.ToUpper(tn), "REL") {
						okf = false
						break
					}
					ops = append(ops, ss[0])
				}
				if !okf {
					continue
				}
				perType[ty]++
				for _, k := range universe {
					ops[pos] = k
					bi, berr, _ := x86.VerifBuild(opcIndexOf[ci.Opcode], ci.Suffixes, append([]operand.Op{}, ops...))
					before := len(insts)
					add(bi, berr)
					// what was accepted holds the constant that was supplied (the comparisons below read the
					// instruction; this one compares it with what the caller passed)
					if berr == nil && bi != nil && pos < len(bi.Operands) {
						if sv, ok1 := intConstValue(k); ok1 {
							if hv, ok2 := intConstValue(bi.Operands[pos]); !ok2 || sv.Cmp(hv) != 0 {
								c.Out.Plan.GoViolations = append(c.Out.Plan.GoViolations, GoViolation{Key: "constant-replaced:" + name, Desc: fmt.Sprintf("%s was given the constant %s (%T) and built `%s`, which holds %s", name, sv.String(), k, instrLine(bi), bi.Operands[pos].Asm()), Replay: map[string]any{"ctor": name, "constant": sv.String(), "type": fmt.Sprintf("%T", k)}})
							}
						}
					}
					if len(insts) > before {
						// the form that matched may be a sibling: if the opcode also has an imm8 form of this shape, a
						// constant that fits 8 bits is (also) an imm8
						it := ty
						for _, dg := range ci.Doc {
							if len(dg) == len(df) && strings.ToUpper(dg[1+pos]) == "IMM8" {
								it = "IMM8"
							}
						}
						insts[before].ImmType = it
					}
				}
			}
		}
	}
	// displacements at and beyond the int32 range of the encoding
	for _, disp := range []int{1<<31 - 1, -(1 << 31), 1 << 31, 1<<32 + 8, -(1 << 31) - 16, 1 << 32} {
		add(x86.MOVQ(operand.Mem{Base: reg.RAX, Index: reg.RCX, Scale: 8, Disp: disp}, reg.RDX))
		add(x86.MOVQ(reg.RDX, operand.Mem{Base: reg.RBX, Disp: disp}))
	}
	add(x86.MOVQ(paramMem("x", 0), reg.RCX))
	add(x86.MOVQ(stackMem(16), reg.RCX))
	// symbolic references: static and global data, with displacement and index; argument and stack
	// references with an index register
	add(x86.MOVQ(dataMem(operand.NewStaticSymbol("tbl"), 0), reg.RCX))
	add(x86.MOVQ(dataMem(operand.NewStaticSymbol("tbl"), 24), reg.RCX))
	add(x86.LEAQ(dataMem(operand.NewStaticSymbol("tbl"), 8), reg.RDX))
	add(x86.MOVQ(dataMem(operand.Symbol{Name: "runtime·x"}, 0), reg.RCX))
	add(x86.MOVQ(idxMem(stackMem(8), reg.RCX, 8), reg.RDX))
	add(x86.MOVL(idxMem(stackMem(0), reg.R9, 4), reg.EDX))
	add(x86.MOVQ(reg.RDX, idxMem(stackMem(16), reg.RSI, 1)))
	add(x86.LEAQ(operand.Mem{Base: reg.RDX, Index: reg.RDX, Scale: 8}, reg.RCX))
	for k := mark; k < len(insts); k++ {
		insts[k].Class = "addressing"
	}

	// (printed text of every instance is set below; the block check runs after that)
	// toolchain: print, assemble, dump, decode
	dir := filepath.Join(c.Tmp, "c05")
	os.MkdirAll(dir, 0o755)
	inc := filepath.Join(goroot(), "pkg", "include")
	var wg sync.WaitGroup
	sem := make(chan struct{}, 16)
	for k := range insts {
		insts[k].Text = printOne(insts[k].I)
		wg.Add(1)
		go func(k int) {
			defer wg.Done()
			sem <- struct{}{}
			insts[k].AsmErr, insts[k].Bytes = assembleOne(dir, k, insts[k].Text, inc)
			<-sem
		}(k)
	}
	wg.Wait()
	printedInBlocks(o, insts)
	nAsm, nRej, nDec, nUndec, nCmpBad, nGnu, nZeroStore := 0, 0, 0, 0, 0, 0, 0
	var renderRows []string
	seenOp := map[string]bool{}
	for _, in := range insts {
		line := instrLine(in.I)
		idx := o.AddCase(Case{Key: "asm:" + in.Class + ":" + in.I.Opcode, Desc: line, Input: map[string]any{"instruction": line}, Nontrivial: len(in.I.Operands) > 0})
		for _, op := range in.I.Operands {
			t := op.Asm()
			if !seenOp[t] {
				seenOp[t] = true
				renderRows = append(renderRows, "("+cOperand(op)+", "+cStr(t)+")")
			}
		}
		if in.AsmErr != "" {
			nRej++
			o.Plan.GoViolations = append(o.Plan.GoViolations, GoViolation{Key: "asm-rejects:" + classifyReject(in), Desc: fmt.Sprintf("case %d: avo accepts `%s` but the Go assembler rejects it: %s", idx, line, in.AsmErr), Replay: map[string]any{"instruction": line, "asm": in.Text}})
			continue
		}
		nAsm++
		if len(in.Bytes) == 0 {
			continue
		}
		// EVEX.z with a memory destination is an undefined instruction (#UD)
		if b := in.Bytes; len(b) >= 6 && b[0] == 0x62 && b[3]&0x80 != 0 && b[5]>>6 != 3 {
			memOut := false
			for _, out := range in.I.Outputs {
				if _, ok := out.(operand.Mem); ok {
					memOut = true
				}
			}
			if memOut {
				nZeroStore++
				o.Plan.GoViolations = append(o.Plan.GoViolations, GoViolation{Key: "undefined-encoding:zeroing-masked-store:" + in.I.Opcode, Desc: fmt.Sprintf("case %d: `%s` assembles to % x, an EVEX encoding with z=1 and a memory destination: zeroing-masking is not defined for stores and the processor raises #UD (the C04 hardware run observes SIGILL for these forms)", idx, line, in.Bytes), Replay: map[string]any{"instruction": line, "bytes": hex.EncodeToString(in.Bytes)}})
				continue
			}
		}
		var dd decoded
		if b0 := in.Bytes[0]; b0 == 0xc4 || b0 == 0xc5 || b0 == 0x62 {
			g, ok := gnuDecode(dir, idx, in.Bytes)
			if !ok {
				nUndec++
				continue
			}
			dd = g
			nGnu++
		} else {
			dec, err := x86asm.Decode(in.Bytes, 64)
			if err != nil || dec.Len != len(in.Bytes) || dec.Op == 0 {
				g, ok := gnuDecode(dir, idx, in.Bytes)
				if !ok {
					nUndec++
					continue
				}
				dd = g
				nGnu++
			} else {
				dd = fromX86asm(dec)
			}
		}
		nDec++
		if probs := compareDecoded(in.I, dd); len(probs) > 0 {
			nCmpBad++
			o.Plan.GoViolations = append(o.Plan.GoViolations, GoViolation{Key: "encodes-differently:" + classifyDiff(in, probs), Desc: fmt.Sprintf("case %d: `%s` assembles to % x = %s: %s", idx, line, in.Bytes, dd.text, strings.Join(probs, "; ")), Replay: map[string]any{"instruction": line, "bytes": hex.EncodeToString(in.Bytes)}})
		}
	}
	var b strings.Builder
	b.WriteString(progHeader + "From Avo Require Import Model.Data Model.AsmSyntax Proofs.SyntaxProofs.\n")
	b.WriteString("(* hypothesis of printed_memory_reference_is_read_back for the translated register table *)\nLemma names_plain : forallb (fun p => plain (p_name p)) regs = true.\nProof. vm_compute. reflexivity. Qed.\nPrint Assumptions names_plain.\n")
	fmt.Fprintf(&b, "Definition rcases : list render_case := %s.\n", cListNL(renderRows))
	b.WriteString("Definition R_render_mismatch := Eval vm_compute in List.map (N.add 3000000) (idx_where (fun c => negb (render_agree regs c)) rcases).\nPrint R_render_mismatch.\n")
	b.WriteString("Definition R_imm_violation := Eval vm_compute in List.map (N.add 3000000) (idx_where (fun c => negb (imm_text_ok c)) rcases).\nPrint R_imm_violation.\n")
	o.WriteFile("Render.v", b.String())
	o.Stage("Render.v")
	nm := 400
	if c.Thorough() {
		nm = 6000
	}
	memHelperFile(o, NewRNG(c.Seed+555), nm, nil, "MemOps.v")
	// operand.Imm picks the narrowest unsigned constant type that holds the value: the value must survive
	for _, x := range []uint64{0, 1, 127, 128, 255, 256, 257, 32767, 32768, 65535, 65536, 65537, 1<<31 - 1, 1 << 31, 1<<32 - 1, 1 << 32, 1<<32 + 1, 1<<63 - 1, 1 << 63, 1<<64 - 1} {
		var val uint64
		var size int
		switch k := operand.Imm(x).(type) {
		case operand.U8:
			val, size = uint64(k), 1
		case operand.U16:
			val, size = uint64(k), 2
		case operand.U32:
			val, size = uint64(k), 4
		case operand.U64:
			val, size = uint64(k), 8
		default:
			size = -1
		}
		wantSize := 8
		switch {
		case x < 1<<8:
			wantSize = 1
		case x < 1<<16:
			wantSize = 2
		case x < 1<<32:
			wantSize = 4
		}
		if val != x || size != wantSize {
			o.Plan.GoViolations = append(o.Plan.GoViolations, GoViolation{Key: "imm:helper", Desc: fmt.Sprintf("operand.Imm(%d) is the %d-byte constant %d", x, size, val), Replay: map[string]any{"value": x}})
		}
	}
	o.Oblig("Render.names_plain")
	o.ExpectEmpty("Render.v", "R_render_mismatch", "mismatch", "model of operand rendering (register names, memory references, constants) vs Op.Asm()")
	o.ExpectEmpty("Render.v", "R_imm_violation", "violation", "a printed constant does not denote the constant's bytes when read as the assembler reads integer literals")
	o.Plan.Rule = "instruction instances built through the real constructors: one per documented form of every constructor (three operand choices per form in thorough) with physical operands; every register view of every class through plain moves (incl. REX-only, high-byte, X16-31, K0-7; as base and index); boundary immediates of each signedness/width on 8/16/32/64-bit operations; addressing shapes (SP/BP/R12/R13 bases, disp8/disp32 boundaries, every scale incl. 3, narrow base registers). Each is printed with printer.NewGoAsm, assembled with `go tool asm`, dumped and decoded with x/arch x86asm (legacy/REX encodings) and its explicit operands compared; non-trivial = has operands; distinct by instruction text"
	o.Plan.Stats["instances"] = len(insts)
	o.Plan.EnvValidation["assembled"] = nAsm
	o.Plan.EnvValidation["rejected_by_assembler"] = nRej
	o.Plan.EnvValidation["decoded_and_compared"] = nDec
	o.Plan.EnvValidation["not_decodable"] = nUndec
	o.Plan.EnvValidation["decoded_with_gnu_objdump_(VEX/EVEX)"] = nGnu
	o.Plan.EnvValidation["operand_differences"] = nCmpBad
	o.Plan.EnvValidation["zeroing_masked_stores"] = nZeroStore
	o.Plan.Stats["distinct_operands_rendered"] = len(renderRows)
}

func isEvex(i *ir.Instruction) bool {
	for _, isa := range i.ISA {
		if strings.HasPrefix(isa, "AVX512") {
			return true
		}
	}
	return false
}
func hasHiVec(i *ir.Instruction) bool {
	for _, r := range i.Registers() {
		if p := reg.ToPhysical(r); p != nil && p.Kind() == reg.KindVector && p.PhysicalIndex() >= 16 {
			return true
		}
	}
	return false
}

func instrLine(i *ir.Instruction) string {
	var ops []string
	for _, op := range i.Operands {
		ops = append(ops, op.Asm())
	}
	return strings.TrimSpace(i.OpcodeWithSuffixes() + " " + strings.Join(ops, ", "))
}

// classifyReject names the class of input the assembler rejects (for known-finding matching)
func classifyReject(in *inst05) string {
	if strings.HasPrefix(in.I.Opcode, "PUSH") || strings.HasPrefix(in.I.Opcode, "POP") {
		return "harness-limit:unbalanced-push-pop"
	}
	evex := false
	for _, isa := range in.I.ISA {
		if strings.HasPrefix(isa, "AVX512") {
			evex = true
		}
	}
	if strings.Contains(in.AsmErr, "should be distinct") {
		return "gather-registers-not-distinct"
	}
	for _, op := range in.I.Operands {
		switch o := op.(type) {
		case operand.Rel:
			return "rel-operand-text"
		case operand.U8:
			if o >= 128 && strings.Contains(in.AsmErr, "invalid instruction") {
				return "u8-over-127:" + in.I.Opcode
			}
		case operand.I8:
			if o < 0 && in.ImmType != "" && in.ImmType != "IMM8" {
				return "negative-constant-as-" + in.ImmType + ":" + in.I.Opcode
			}
			if o < 0 {
				return "negative-imm8:" + in.I.Opcode
			}
		case operand.F32, operand.F64, operand.String:
			return "non-integer-constant-as-immediate:" + in.I.Opcode
		case operand.Mem:
			if o.Index != nil && o.Scale != 1 && o.Scale != 2 && o.Scale != 4 && o.Scale != 8 {
				return "scale-not-1248"
			}
			if int64(o.Disp) > 1<<31-1 || int64(o.Disp) < -(1<<31) {
				return "displacement-outside-int32"
			}
			if o.Base != nil && o.Base.Kind() == reg.KindGP && o.Base.Size() != 8 {
				return fmt.Sprintf("narrow-base-register:%d", o.Base.Size())
			}
		}
	}
	// K0 in a mask position means "no masking" in the encoding and is refused by the assembler
	if evex {
		nk := 0
		for k, op := range in.I.Operands {
			if r, ok := op.(reg.Register); ok && r.Kind() == reg.KindOpmask {
				nk++
				if r == reg.K0 && k < len(in.I.Operands)-1 && len(in.I.Operands) >= 3 {
					return "k0-as-write-mask"
				}
			}
		}
	}
	for _, r := range in.I.Registers() {
		if p := reg.ToPhysical(r); p != nil && p.Kind() == reg.KindVector && p.PhysicalIndex() >= 16 && !evex {
			return "vec16-31-without-avx512:" + in.I.Opcode
		}
	}
	return "unsupported-form:" + in.I.Opcode + " " + formShape(in.I)
}

func formShape(i *ir.Instruction) string {
	var ss []string
	for _, op := range i.Operands {
		switch o := op.(type) {
		case reg.Register:
			ss = append(ss, fmt.Sprintf("r%d.%d", o.Kind(), o.Size()))
		case operand.Mem:
			ss = append(ss, "m")
		case operand.Constant:
			ss = append(ss, fmt.Sprintf("i%d", o.Bytes()))
		default:
			ss = append(ss, "x")
		}
	}
	return strings.Join(ss, ",")
}

func classifyDiff(in *inst05, probs []string) string {
	for _, op := range in.I.Operands {
		if u, ok := op.(operand.U32); ok && u >= 1<<31 {
			return "u32-sign-extended:" + in.I.Opcode
		}
	}
	for _, op := range in.I.Operands {
		if r, ok := op.(reg.Register); ok && r.Mask() == 2 {
			return "high-byte-with-rex:" + in.I.Opcode
		}
	}
	for _, p := range probs {
		if strings.Contains(p, "through a different view") && in.I.Opcode != "MOVLQZX" {
			return "register-width-changed:" + in.I.Opcode + " " + formShape(in.I)
		}
	}
	return in.Class + ":" + in.I.Opcode + " " + formShape(in.I)
}

// instrLineIn returns the line of the instruction (the first indented line that is not RET, or the only
// one) of a function printed alone, whitespace-normalised.
func soloLine(text string) string {
	for _, ln := range strings.Split(text, "\n") {
		if strings.HasPrefix(ln, "\t") {
			return strings.Join(strings.Fields(ln), " ")
		}
	}
	return ""
}

// printedInBlocks: the same instructions printed many to a function, neighbours of the same opcode with
// other suffixes and operands next to each other, must each read exactly as when printed alone (the
// printer aligns a block of instructions at once; nothing but the spacing may depend on the neighbours).
func printedInBlocks(o *Out, insts []*inst05) {
	var sel []*inst05
	for _, in := range insts {
		if in.I.IsBranch || in.I.IsTerminal || soloLine(in.Text) == "" {
			continue
		}
		sel = append(sel, in)
	}
	sort.SliceStable(sel, func(a, b int) bool { return sel[a].I.Opcode < sel[b].I.Opcode })
	const per = 64
	bad := 0
	// one printer prints all the files, and every result is kept until the last file has been printed (a
	// generator that writes its files at the end): what is held must still be what Print returned
	shared := printer.NewGoAsm(printer.Config{Name: "avo", Pkg: "p"})
	var held [][]byte
	var snaps []string
	for lo := 0; lo < len(sel); lo += per {
		hi := lo + per
		if hi > len(sel) {
			hi = len(sel)
		}
		fn := ir.NewFunction("f")
		fn.Attributes = 4
		for _, in := range sel[lo:hi] {
			fn.AddInstruction(cloneInstr(in.I))
		}
		fn.AddInstruction(&ir.Instruction{Opcode: "RET", IsTerminal: true})
		f := ir.NewFile()
		f.Includes = []string{"textflag.h"}
		f.AddSection(fn)
		out, err := shared.Print(f)
		if err != nil {
			held, snaps = append(held, nil), append(snaps, "")
			continue
		}
		held, snaps = append(held, out), append(snaps, string(out))
	}
	changed := 0
	for b, lo := 0, 0; lo < len(sel); b, lo = b+1, lo+per {
		hi := lo + per
		if hi > len(sel) {
			hi = len(sel)
		}
		if held[b] == nil {
			continue
		}
		out := held[b]
		if string(out) != snaps[b] && changed < 3 {
			changed++
			o.Plan.GoViolations = append(o.Plan.GoViolations, GoViolation{Key: "printed-in-block:earlier-output-changed", Desc: fmt.Sprintf("the bytes Print returned for file %d of %d are different bytes after the same printer has printed the later files", b+1, len(held)), Replay: map[string]any{"returned": snaps[b], "now": string(out)}})
		}
		var lines []string
		for _, ln := range strings.Split(string(out), "\n") {
			if strings.HasPrefix(ln, "\t") {
				lines = append(lines, strings.Join(strings.Fields(ln), " "))
			}
		}
		if len(lines) != hi-lo+1 {
			o.Plan.GoViolations = append(o.Plan.GoViolations, GoViolation{Key: "printed-in-block:line-count", Desc: fmt.Sprintf("a function of %d instructions and RET prints %d instruction lines", hi-lo, len(lines)), Replay: map[string]any{"text": string(out)}})
			continue
		}
		for k, in := range sel[lo:hi] {
			if want := soloLine(in.Text); lines[k] != want && bad < 20 {
				bad++
				o.Plan.GoViolations = append(o.Plan.GoViolations, GoViolation{Key: "printed-in-block:" + in.I.Opcode, Desc: fmt.Sprintf("`%s` printed alone reads `%s`, but after `%s` in the same block it reads `%s`", instrLine(in.I), want, func() string {
					if k > 0 {
						return lines[k-1]
					}
					return "(first)"
				}(), lines[k]), Replay: map[string]any{"instruction": want, "in_block": lines[k]}})
			}
		}
	}
	o.Plan.Stats["printed_in_blocks"] = len(sel)
}

// intConstValue: the mathematical value of an integer constant operand
func intConstValue(op operand.Op) (*big.Int, bool) {
	switch v := op.(type) {
	case operand.U8:
		return new(big.Int).SetUint64(uint64(v)), true
	case operand.U16:
		return new(big.Int).SetUint64(uint64(v)), true
	case operand.U32:
		return new(big.Int).SetUint64(uint64(v)), true
	case operand.U64:
		return new(big.Int).SetUint64(uint64(v)), true
	case operand.I8:
		return big.NewInt(int64(v)), true
	case operand.I16:
		return big.NewInt(int64(v)), true
	case operand.I32:
		return big.NewInt(int64(v)), true
	case operand.I64:
		return big.NewInt(int64(v)), true
	}
	return nil, false
}
