package main

import (
	"encoding/json"
	"fmt"
	"os"
	"path/filepath"
	"sort"
	"strings"

	"github.com/mmcloughlin/avo/operand"
	"github.com/mmcloughlin/avo/reg"
)

// ---- deterministic PRNG (SplitMix64): every random choice derives from VERIF_SEED ----

type RNG struct{ s uint64 }

func NewRNG(seed uint64) *RNG { return &RNG{s: seed*0x9E3779B97F4A7C15 + 0x1234567} }
func (r *RNG) U64() uint64 {
	r.s += 0x9E3779B97F4A7C15
	z := r.s
	z = (z ^ (z >> 30)) * 0xBF58476D1CE4E5B9
	z = (z ^ (z >> 27)) * 0x94D049BB133111EB
	return z ^ (z >> 31)
}
func (r *RNG) Intn(n int) int {
	if n <= 0 {
		return 0
	}
	return int(r.U64() % uint64(n))
}
func (r *RNG) Bool() bool          { return r.U64()&1 == 1 }
func (r *RNG) Chance(p int) bool   { return r.Intn(100) < p }
func Pick[T any](r *RNG, xs []T) T { return xs[r.Intn(len(xs))] }

// ---- Coq term writers ----

func cN(n uint64) string { return fmt.Sprintf("%d", n) }
func cZ(z int64) string {
	if z < 0 {
		return fmt.Sprintf("(%d)", z)
	}
	return fmt.Sprintf("%d", z)
}
func cBool(b bool) string {
	if b {
		return "true"
	}
	return "false"
}

// cStr renders a Go string as a Coq string term. Plain printable ASCII uses a literal;
// anything else goes through bs [bytes].
func cStr(s string) string {
	plain := true
	for i := 0; i < len(s); i++ {
		c := s[i]
		if c < 32 || c > 126 {
			plain = false
			break
		}
	}
	if plain {
		return "\"" + strings.ReplaceAll(s, "\"", "\"\"") + "\"%string"
	}
	parts := make([]string, len(s))
	for i := 0; i < len(s); i++ {
		parts[i] = fmt.Sprintf("%d", s[i])
	}
	return "(bs [" + strings.Join(parts, ";") + "]%N)"
}
func cList(items []string) string { return "[" + strings.Join(items, "; ") + "]" }
func cListNL(items []string) string {
	return "[\n  " + strings.Join(items, ";\n  ") + "\n]"
}
func cOpt(s *string) string {
	if s == nil {
		return "None"
	}
	return "(Some " + *s + ")"
}
func cNList(ns []uint64) string {
	ss := make([]string, len(ns))
	for i, n := range ns {
		ss[i] = cN(n)
	}
	return cList(ss)
}
func cPair(a, b string) string { return "(" + a + ", " + b + ")" }

// ---- output directory / plan ----

type Expect struct {
	File      string `json:"file"`
	Name      string `json:"name"` // printed definition R_...
	Kind      string `json:"kind"` // "empty" (list of case indices must be []) | "true"
	What      string `json:"what"` // "mismatch" (model vs impl) | "violation" (spec_b on impl output) | "obligation"
	Desc      string `json:"desc"`
	KeySuffix string `json:"key_suffix,omitempty"` // appended to the case key of a violation found by this check
}

type Case struct {
	Index      int    `json:"index"`
	Key        string `json:"key"`   // input class, used for known-finding matching
	Desc       string `json:"desc"`  // human readable input
	Input      any    `json:"input"` // replayable input
	Nontrivial bool   `json:"nontrivial"`
}

type GoViolation struct {
	Key    string `json:"key"`
	Desc   string `json:"desc"`
	Replay any    `json:"replay"`
}

type Plan struct {
	Property      string         `json:"property"`
	Stages        [][]string     `json:"stages"` // .v files (relative to out dir) compiled stage by stage
	Expect        []Expect       `json:"expect"`
	Obligations   []string       `json:"obligations"` // lemma names proved in Gen files
	Cases         []Case         `json:"cases"`
	GoViolations  []GoViolation  `json:"go_violations"` // found directly by the harness (toolchain oracle etc.)
	Stats         map[string]any `json:"stats"`
	Samples       []any          `json:"samples"`
	Rule          string         `json:"rule"`
	EnvValidation map[string]any `json:"env_validation"`
}

type Out struct {
	Dir  string
	Plan Plan
}

func NewOut(dir, prop string) *Out {
	os.RemoveAll(dir)
	if err := os.MkdirAll(dir, 0o755); err != nil {
		die(err)
	}
	return &Out{Dir: dir, Plan: Plan{Property: prop, Stats: map[string]any{}, EnvValidation: map[string]any{}}}
}

func (o *Out) WriteFile(name, content string) {
	if err := os.WriteFile(filepath.Join(o.Dir, name), []byte(content), 0o644); err != nil {
		die(err)
	}
}

func (o *Out) Stage(files ...string) { o.Plan.Stages = append(o.Plan.Stages, files) }
func (o *Out) ExpectEmpty(file, name, what, desc string) {
	o.Plan.Expect = append(o.Plan.Expect, Expect{File: file, Name: name, Kind: "empty", What: what, Desc: desc})
}
func (o *Out) ExpectTrue(file, name, what, desc string) {
	o.Plan.Expect = append(o.Plan.Expect, Expect{File: file, Name: name, Kind: "true", What: what, Desc: desc})
}
func (o *Out) ExpectEmptyK(file, name, what, desc, suffix string) {
	o.Plan.Expect = append(o.Plan.Expect, Expect{File: file, Name: name, Kind: "empty", What: what, Desc: desc, KeySuffix: suffix})
}
func (o *Out) Oblig(names ...string) { o.Plan.Obligations = append(o.Plan.Obligations, names...) }
func (o *Out) AddCase(c Case) int {
	c.Index = len(o.Plan.Cases)
	o.Plan.Cases = append(o.Plan.Cases, c)
	return c.Index
}
func (o *Out) Finish() {
	b, err := json.MarshalIndent(o.Plan, "", " ")
	if err != nil {
		die(err)
	}
	o.WriteFile("plan.json", string(b))
}

func die(err error) {
	fmt.Fprintln(os.Stderr, "vh: fatal:", err)
	os.Exit(2)
}

func sortedKeys[V any](m map[string]V) []string {
	ks := make([]string, 0, len(m))
	for k := range m {
		ks = append(ks, k)
	}
	sort.Strings(ks)
	return ks
}

const coqHeader = "From Avo Require Import Base.Prelude Base.Str.\n"

func readFile(p string) []byte {
	b, err := os.ReadFile(p)
	if err != nil {
		die(err)
	}
	return b
}

// Memory operands are built from struct literals here, never through the helper methods of package
// operand (NewStackAddr, NewParamAddr, NewDataAddr, Mem.Offset, Mem.Idx): those are code under test
// (memhelpers.go), and an input built through them would inherit their faults unnoticed.
func stackMem(off int) operand.Mem { return operand.Mem{Base: reg.StackPointer, Disp: off} }
func paramMem(name string, off int) operand.Mem {
	return operand.Mem{Symbol: operand.Symbol{Name: name}, Base: reg.FramePointer, Disp: off}
}
func dataMem(sym operand.Symbol, off int) operand.Mem {
	return operand.Mem{Symbol: sym, Base: reg.StaticBase, Disp: off}
}
func idxMem(m operand.Mem, r reg.Register, s uint8) operand.Mem {
	return operand.Mem{Symbol: m.Symbol, Disp: m.Disp, Base: m.Base, Index: r, Scale: s}
}
