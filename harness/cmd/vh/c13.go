package main

import (
	"encoding/json"
	"errors"
	"fmt"
	"github.com/mmcloughlin/avo/build"
	"github.com/mmcloughlin/avo/pass"
	"math"
	"os"
	"os/exec"
	"path/filepath"
	"regexp"
	"strconv"
	"strings"

	"github.com/mmcloughlin/avo/attr"
	"github.com/mmcloughlin/avo/ir"
	"github.com/mmcloughlin/avo/operand"
	"github.com/mmcloughlin/avo/printer"
)

func init() { props["C13"] = c13 }

var dataLineRe = regexp.MustCompile(`^DATA [^ ]*<>([+-]\d+)\(SB\)/(\d+), `)

func cZs(s string) string {
	v, _ := strconv.ParseInt(s, 10, 64)
	return cZ(v)
}

type dconst struct {
	C    operand.Constant
	Coq  string
	Kind string
	Want []byte // expected little-endian bytes
}

func leBytes(v uint64, n int) []byte {
	b := make([]byte, n)
	for i := 0; i < n; i++ {
		b[i] = byte(v >> (8 * uint(i)))
	}
	return b
}

func randConst(r *RNG) dconst {
	pickU := func(bits uint) uint64 {
		switch r.Intn(5) {
		case 0:
			return 0
		case 1:
			return (uint64(1) << (bits - 1)) - 1 + uint64(r.Intn(3)) // around the sign boundary
		case 2:
			if bits == 64 {
				return ^uint64(0)
			}
			return (uint64(1) << bits) - 1
		}
		if bits == 64 {
			return r.U64()
		}
		return r.U64() & ((uint64(1) << bits) - 1)
	}
	switch r.Intn(12) {
	case 0:
		v := uint8(pickU(8))
		return dconst{operand.U8(v), fmt.Sprintf("(CInt 1 false %d)", v), "U8", leBytes(uint64(v), 1)}
	case 1:
		v := uint16(pickU(16))
		return dconst{operand.U16(v), fmt.Sprintf("(CInt 2 false %d)", v), "U16", leBytes(uint64(v), 2)}
	case 2:
		v := uint32(pickU(32))
		return dconst{operand.U32(v), fmt.Sprintf("(CInt 4 false %d)", v), "U32", leBytes(uint64(v), 4)}
	case 3:
		v := pickU(64)
		return dconst{operand.U64(v), fmt.Sprintf("(CInt 8 false %d)", v), "U64", leBytes(v, 8)}
	case 4:
		v := int8(pickU(8))
		return dconst{operand.I8(v), fmt.Sprintf("(CInt 1 true %s)", cZ(int64(v))), "I8", leBytes(uint64(v), 1)}
	case 5:
		v := int16(pickU(16))
		return dconst{operand.I16(v), fmt.Sprintf("(CInt 2 true %s)", cZ(int64(v))), "I16", leBytes(uint64(v), 2)}
	case 6:
		v := int32(pickU(32))
		return dconst{operand.I32(v), fmt.Sprintf("(CInt 4 true %s)", cZ(int64(v))), "I32", leBytes(uint64(v), 4)}
	case 7:
		v := int64(pickU(64))
		return dconst{operand.I64(v), fmt.Sprintf("(CInt 8 true %s)", cZ(v)), "I64", leBytes(uint64(v), 8)}
	case 8:
		var b uint32
		switch r.Intn(8) {
		case 0:
			b = 0x80000000 // -0
		case 1:
			b = uint32(1 + r.Intn(1000)) // subnormal
		case 2:
			b = math.Float32bits(float32(r.Intn(100000))) // integral
		case 3:
			b = 0x15ae43fd // double-rounding witness
		case 4:
			b = 0x95ae43fd
		case 5:
			b = math.Float32bits(Pick(r, []float32{1e21, 1e30, 3e38, -1e25, 1e20, 1e-7, 1e-30, math.MaxFloat32, math.SmallestNonzeroFloat32, 1e10, 16777216, 1e-45}))
		default:
			b = uint32(r.U64())
		}
		f := math.Float32frombits(b)
		if f != f || math.IsInf(float64(f), 0) {
			b = 0x3fc00000
			f = 1.5
		}
		return dconst{operand.F32(f), fmt.Sprintf("(CF32 %d)", b), "F32", leBytes(uint64(b), 4)}
	case 9:
		var b uint64
		switch r.Intn(6) {
		case 0:
			b = 1 << 63
		case 1:
			b = uint64(1 + r.Intn(1000))
		case 2:
			b = math.Float64bits(float64(r.Intn(1000000)))
		case 3:
			// decimal round numbers of every magnitude (their shortest text has one digit and a large exponent),
			// the extremes, and values just around the switch-over points of the usual float formats
			b = math.Float64bits(Pick(r, []float64{1e21, 1e22, 1e30, 7e250, 1e308, -1e21, -3e100, 1e20, 9.999999e20, 1e-7, 1e-5, 1e-300, 5e-324,
				math.MaxFloat64, math.SmallestNonzeroFloat64, 123456789012345678901234567890, 0.000001, 1e15, 1e16, 1e17}))
		default:
			b = r.U64()
		}
		f := math.Float64frombits(b)
		if f != f || math.IsInf(f, 0) {
			b = math.Float64bits(2.5)
			f = 2.5
		}
		return dconst{operand.F64(f), fmt.Sprintf("(CF64 %d)", b), "F64", leBytes(b, 8)}
	default:
		n := r.Intn(12)
		if r.Chance(10) {
			n = 0
		}
		bs := make([]byte, n)
		var ns []uint64
		if r.Chance(12) { // text with non-ASCII runes, among them the two the Go assembler rewrites in identifiers
			bs = []byte(Pick(r, []string{"a\u00b7b", "\u00b7", "x\u2215y", "\u2215\u2215", "caf\u00e9", "\u4e2d\u6587", "\u00b7\u2215\u00b7", "pkg\u00b7sym"}))
			for i := range bs {
				ns = append(ns, uint64(bs[i]))
			}
			return dconst{operand.String(string(bs)), "(CStr " + cNList(ns) + "%N)", "String", bs}
		}
		for i := range bs {
			switch r.Intn(4) {
			case 0:
				bs[i] = byte(r.Intn(256))
			case 1:
				bs[i] = []byte{0, '"', '\\', '\n', 0xff, '%'}[r.Intn(6)]
			default:
				bs[i] = byte('a' + r.Intn(26))
			}
			ns = append(ns, uint64(bs[i]))
		}
		return dconst{operand.String(string(bs)), "(CStr " + cNList(ns) + "%N)", "String", bs}
	}
}

type dataCase struct {
	Ops    []string // Coq gops
	Desc   []string
	Errs   []bool
	G      *ir.Global
	Consts []dconst // accepted constants in order
}

func genDataCase(r *RNG, name string) *dataCase {
	dc := &dataCase{G: ir.NewStaticGlobal(name)}
	dc.G.Attributes = attr.RODATA | attr.NOPTR
	k := 1 + r.Intn(7)
	for j := 0; j < k; j++ {
		c := randConst(r)
		if r.Chance(45) {
			dc.G.Append(c.C)
			dc.Ops = append(dc.Ops, "GAppend "+c.Coq)
			dc.Desc = append(dc.Desc, "Append("+c.Kind+" "+c.C.Asm()+")")
			dc.Errs = append(dc.Errs, false)
			dc.Consts = append(dc.Consts, c)
			continue
		}
		var off int
		switch r.Intn(5) {
		case 0: // touching / overlapping an existing datum
			if len(dc.G.Data) > 0 {
				d := dc.G.Data[r.Intn(len(dc.G.Data))]
				s, e := d.Interval()
				off = []int{s, e, e - 1, s - c.C.Bytes(), s - c.C.Bytes() + 1, s + 1}[r.Intn(6)]
				if off < 0 {
					off = 0
				}
			}
		case 1:
			off = dc.G.Size
		case 2:
			off = dc.G.Size + 8*r.Intn(3)
		default:
			off = r.Intn(40)
		}
		err := dc.G.AddDatum(ir.NewDatum(off, c.C))
		dc.Ops = append(dc.Ops, fmt.Sprintf("GAdd %d %s", off, c.Coq))
		dc.Desc = append(dc.Desc, fmt.Sprintf("AddDatum(%d, %s %s)", off, c.Kind, c.C.Asm()))
		dc.Errs = append(dc.Errs, err != nil)
		if err == nil {
			dc.Consts = append(dc.Consts, c)
		}
	}
	return dc
}

var linkSymRe = regexp.MustCompile(`^g(\d+)(?:<>)?: `)

// assemble all globals in one package and read their bytes back through the real toolchain
func assembleAndRead(c *Ctx, cases []*dataCase, asmText []string) (map[int][]byte, map[int]string) {
	dir := filepath.Join(c.Tmp, "c13pkg")
	os.MkdirAll(dir, 0o755)
	got := map[int][]byte{}
	rejected := map[int]string{}
	// first: each global alone through `go tool asm` to find the ones the assembler rejects
	ok := []int{}
	for j := range cases {
		src := "#include \"textflag.h\"\n" + asmText[j]
		fn := filepath.Join(dir, fmt.Sprintf("one%d.s", j))
		os.WriteFile(fn, []byte(src), 0o644)
		cmd := exec.Command("go", "tool", "asm", "-I", filepath.Join(goroot(), "pkg", "include"), "-p", "main", "-o", filepath.Join(dir, "one.o"), fn)
		if out, err := cmd.CombinedOutput(); err != nil {
			rejected[j] = strings.TrimSpace(string(out))
		} else {
			ok = append(ok, j)
		}
		os.Remove(fn)
	}
	os.Remove(filepath.Join(dir, "one.o"))
	var out []byte
	for attempt := 0; ; attempt++ {
		var s, g strings.Builder
		s.WriteString("#include \"textflag.h\"\n")
		g.WriteString("package main\nimport (\"encoding/json\"; \"os\"; \"unsafe\")\n")
		g.WriteString("func rd(p uintptr, n int) []int { b := make([]int, n); for i := range b { b[i] = int(*(*byte)(unsafe.Pointer(p + uintptr(i)))) }; return b }\n")
		g.WriteString("func main() { m := map[int][]int{}\n")
		for _, j := range ok {
			fmt.Fprintf(&s, "%s\nTEXT ·addr%d(SB), NOSPLIT, $0-8\n\tLEAQ g%d<>(SB), AX\n\tMOVQ AX, ret+0(FP)\n\tRET\n", asmText[j], j, j)
			if cases[j].G.Size > 0 {
				fmt.Fprintf(&g, "m[%d] = rd(addr%d(), %d)\n", j, j, cases[j].G.Size)
			}
		}
		g.WriteString("json.NewEncoder(os.Stdout).Encode(m) }\n")
		for _, j := range ok {
			fmt.Fprintf(&g, "func addr%d() uintptr\n", j)
		}
		os.WriteFile(filepath.Join(dir, "data.s"), []byte(s.String()), 0o644)
		os.WriteFile(filepath.Join(dir, "main.go"), []byte(g.String()), 0o644)
		os.WriteFile(filepath.Join(dir, "go.mod"), []byte("module c13pkg\n\ngo 1.23\n"), 0o644)
		cmd := exec.Command("go", "run", ".")
		cmd.Dir = dir
		cmd.Env = append(os.Environ(), "GOFLAGS=-mod=mod")
		var err error
		out, err = cmd.Output()
		if err == nil {
			break
		}
		ee, _ := err.(*exec.ExitError)
		msg := ""
		if ee != nil {
			msg = string(ee.Stderr)
		}
		// the linker names the symbols it refuses (e.g. "g11: initialize bounds (12 < 40)": data beyond the
		// declared size): those sections are reported with their histories, the rest is read back
		bad := map[int]string{}
		for _, ln := range strings.Split(msg, "\n") {
			if mm := linkSymRe.FindStringSubmatch(ln); mm != nil {
				j, _ := strconv.Atoi(mm[1])
				if _, seen := bad[j]; !seen {
					bad[j] = "link: " + strings.TrimSpace(ln)
				}
			}
		}
		if len(bad) == 0 || attempt > 3 {
			die(fmt.Errorf("c13 toolchain run failed: %v %s", err, msg))
		}
		var rest []int
		for _, j := range ok {
			if why, isBad := bad[j]; isBad {
				rejected[j] = why
			} else {
				rest = append(rest, j)
			}
		}
		ok = rest
	}
	var m map[string][]int
	if err := json.Unmarshal(out, &m); err != nil {
		die(err)
	}
	for k, v := range m {
		j, _ := strconv.Atoi(k)
		b := make([]byte, len(v))
		for i, x := range v {
			b[i] = byte(x)
		}
		got[j] = b
	}
	return got, rejected
}

func goroot() string {
	out, _ := exec.Command("go", "env", "GOROOT").Output()
	return strings.TrimSpace(string(out))
}

// builderSections: data placed through build.Context: every constructor of a section (StaticGlobal,
// GlobalData, ConstData) makes that section the one later DATA/AppendDatum calls go to
func builderSections(c *Ctx, rng *RNG) {
	o := c.Out
	nAssembled := 0
	for k := 0; k < 160; k++ {
		ctx := build.NewContext()
		type sec struct {
			name string
			data [][2]int // offset, size
		}
		var want []*sec
		var cur *sec
		var desc []string
		wantErrs := 0
		for j := 0; j < 2+rng.Intn(6); j++ {
			switch rng.Intn(5) {
			case 0:
				cur = &sec{name: fmt.Sprintf("s%d_%d", k, j)}
				want = append(want, cur)
				ctx.StaticGlobal(cur.name)
				desc = append(desc, "StaticGlobal("+cur.name+")")
			case 1:
				cur = &sec{name: fmt.Sprintf("k%d_%d", k, j), data: [][2]int{{0, 8}}}
				want = append(want, cur)
				ctx.ConstData(cur.name, operand.U64(uint64(j)))
				desc = append(desc, "ConstData("+cur.name+", U64)")
			default:
				if cur == nil {
					continue
				}
				if rng.Bool() {
					off := 0
					for _, d := range cur.data {
						if d[0]+d[1] > off {
							off = d[0] + d[1]
						}
					}
					cur.data = append(cur.data, [2]int{off, 4})
					ctx.AppendDatum(operand.U32(7))
					desc = append(desc, "AppendDatum(U32)")
				} else if len(cur.data) > 0 && rng.Chance(55) {
					// a constant that starts inside an earlier one (and may run past the end of the section): refused,
					// the section stays as it is
					d := cur.data[rng.Intn(len(cur.data))]
					off := d[0] + rng.Intn(d[1])
					if rng.Bool() && off > 0 {
						off = d[0] - 4 + rng.Intn(4) + 1 // or ends inside it
						if off < 0 {
							off = d[0]
						}
					}
					ctx.AddDatum(off, operand.U64(11))
					wantErrs++
					desc = append(desc, fmt.Sprintf("AddDatum(%d, U64) overlapping [%d,%d)", off, d[0], d[0]+d[1]))
				} else {
					off := 64 + 8*len(cur.data)
					for _, d := range cur.data {
						if d[0]+d[1] > off {
							off = (d[0] + d[1] + 7) / 8 * 8
						}
					}
					cur.data = append(cur.data, [2]int{off, 8})
					ctx.AddDatum(off, operand.U64(9))
					desc = append(desc, fmt.Sprintf("AddDatum(%d, U64)", off))
				}
			}
		}
		// asking for the result is an observation: a generator that looks at it (to log the errors, say) before
		// build.Generate asks again must not lose the refusals, which are the only trace of the dropped constants
		if k%2 == 1 {
			ctx.Result()
			desc = append(desc, "Result() asked once before")
		}
		f, err := ctx.Result()
		idx := o.AddCase(Case{Key: "data:builder-sections", Desc: strings.Join(desc, "; "), Input: map[string]any{"calls": desc}, Nontrivial: len(want) >= 2})
		if wantErrs > 0 {
			var el build.ErrorList
			if !errors.As(err, &el) || len(el) != wantErrs {
				o.Plan.GoViolations = append(o.Plan.GoViolations, GoViolation{Key: "data:builder-sections:overlap-accepted", Desc: fmt.Sprintf("case %d: %d overlapping constants were requested but the builder reports %v: %s", idx, wantErrs, err, strings.Join(desc, "; ")), Replay: map[string]any{"calls": desc}})
				continue
			}
			err = nil
		}
		if err != nil {
			o.Plan.GoViolations = append(o.Plan.GoViolations, GoViolation{Key: "data:builder-sections:error", Desc: fmt.Sprintf("case %d: valid data requests give an error: %v (%s)", idx, err, strings.Join(desc, "; ")), Replay: map[string]any{"calls": desc}})
			continue
		}
		got := map[string][][2]int{}
		for _, s := range f.Sections {
			if g, ok := s.(*ir.Global); ok {
				var ds [][2]int
				for _, d := range g.Data {
					ds = append(ds, [2]int{d.Offset, d.Value.Bytes()})
				}
				got[g.Symbol.Name] = ds
			}
		}
		// the whole file as a user gets it: flagged data sections next to a function without flags, compiled by
		// the real pipeline (which has to bring in textflag.h for the data flags), printed and assembled
		if nAssembled < 12 && wantErrs == 0 && len(want) > 0 {
			nAssembled++
			ctx.DataAttributes(attr.RODATA | attr.NOPTR)
			ctx.Function(fmt.Sprintf("plain%d", k))
			ctx.SignatureExpr("func()")
			ctx.RET()
			if f2, err2 := ctx.Result(); err2 == nil && pass.Compile.Execute(f2) == nil {
				if text, perr := printer.NewGoAsm(printer.Config{Name: "avo", Pkg: "p"}).Print(f2); perr == nil {
					dir := filepath.Join(c.Tmp, "c13files")
					os.MkdirAll(dir, 0o755)
					fn := filepath.Join(dir, fmt.Sprintf("f%d.s", k))
					os.WriteFile(fn, text, 0o644)
					cmd := exec.Command("go", "tool", "asm", "-I", filepath.Join(goroot(), "pkg", "include"), "-p", "p", "-o", filepath.Join(dir, "f.o"), fn)
					if out, aerr := cmd.CombinedOutput(); aerr != nil {
						o.Plan.GoViolations = append(o.Plan.GoViolations, GoViolation{Key: "data:file-not-assemblable", Desc: fmt.Sprintf("case %d: the printed file with the data sections and a function without attributes is rejected by the assembler: %s (%s)", idx, firstLine(strings.TrimSpace(string(out))), strings.Join(desc, "; ")), Replay: map[string]any{"calls": desc, "text": string(text)}})
					}
					os.RemoveAll(dir)
				}
			}
		}
		for _, w := range want {
			if fmt.Sprint(got[w.name]) != fmt.Sprint(w.data) {
				o.Plan.GoViolations = append(o.Plan.GoViolations, GoViolation{Key: "data:builder-sections:misplaced", Desc: fmt.Sprintf("case %d: section %s holds %v (offset, size) but the calls placed %v there: %s", idx, w.name, got[w.name], w.data, strings.Join(desc, "; ")), Replay: map[string]any{"calls": desc}})
				break
			}
		}
	}
}

func c13(c *Ctx) {
	o := c.Out
	rng := NewRNG(c.Seed + 1300)
	n := 300
	nasm := 120
	if c.Thorough() {
		n, nasm = 6000, 1500
	}
	var rows []string
	var cases []*dataCase
	var asmText []string
	kinds := map[string]int{}
	nerr := 0
	cfg := printer.Config{Name: "avo", Pkg: "p"}
	for j := 0; j < n; j++ {
		dc := genDataCase(rng, fmt.Sprintf("g%d", j))
		cases = append(cases, dc)
		f := ir.NewFile()
		f.AddSection(dc.G)
		out, err := printer.NewGoAsm(cfg).Print(f)
		if err != nil {
			die(err)
		}
		var lines []string
		var body []string
		for _, ln := range strings.Split(string(out), "\n") {
			if strings.HasPrefix(ln, "DATA ") {
				k := strings.Index(ln, ", ")
				m := dataLineRe.FindStringSubmatch(ln)
				if m == nil {
					die(fmt.Errorf("unparsable DATA line %q", ln))
				}
				lines = append(lines, fmt.Sprintf("(%s, %s, %s, %s)", cZs(m[1]), m[2], cStr(ln[:k+2]), cStr(ln[k+2:])))
				body = append(body, ln)
			}
			if strings.HasPrefix(ln, "GLOBL ") {
				body = append(body, ln)
			}
		}
		asmText = append(asmText, strings.Join(body, "\n")+"\n")
		var layout []string
		for _, d := range dc.G.Data {
			layout = append(layout, fmt.Sprintf("(%d, %d)", d.Offset, d.Value.Bytes()))
		}
		var errs []string
		hasErr := false
		for _, e := range dc.Errs {
			errs = append(errs, cBool(e))
			hasErr = hasErr || e
		}
		if hasErr {
			nerr++
		}
		rows = append(rows, fmt.Sprintf("(%s, %s, %s, %d, %s)", cList(dc.Ops), cList(errs), cList(layout), dc.G.Size, cList(lines)))
		for _, k := range dc.Consts {
			kinds[k.Kind]++
		}
		o.AddCase(Case{Key: "data:history", Desc: strings.Join(dc.Desc, "; "), Input: map[string]any{"ops": dc.Desc}, Nontrivial: len(dc.Ops) >= 2})

		// environment contract for floats and strings: the assembler reads the literal with
		// strconv (ParseFloat at 64 bits, narrowed for /4; Unquote for strings)
		for di, d := range dc.G.Data {
			want := dc.Consts[di].Want
			txt := d.Value.Asm()
			switch v := d.Value.(type) {
			case operand.F32:
				pf, err := strconv.ParseFloat(strings.TrimSuffix(strings.TrimPrefix(txt, "$("), ")"), 64)
				if err != nil || math.Float32bits(float32(pf)) != math.Float32bits(float32(v)) {
					o.Plan.GoViolations = append(o.Plan.GoViolations, GoViolation{Key: fmt.Sprintf("data:f32-text:%#08x", math.Float32bits(float32(v))),
						Desc: fmt.Sprintf("F32 bits %#08x printed as %s assembles (ParseFloat at 64 bits, then narrowed) to %#08x", math.Float32bits(float32(v)), txt, math.Float32bits(float32(pf))), Replay: map[string]any{"bits": math.Float32bits(float32(v)), "text": txt}})
				}
			case operand.F64:
				pf, err := strconv.ParseFloat(strings.TrimSuffix(strings.TrimPrefix(txt, "$("), ")"), 64)
				if err != nil || math.Float64bits(pf) != math.Float64bits(float64(v)) {
					o.Plan.GoViolations = append(o.Plan.GoViolations, GoViolation{Key: "data:f64-text", Desc: fmt.Sprintf("F64 %#016x printed as %s reads back as %#016x", math.Float64bits(float64(v)), txt, math.Float64bits(pf)), Replay: map[string]any{"text": txt}})
				}
			case operand.String:
				u, err := strconv.Unquote(strings.TrimPrefix(txt, "$"))
				if err != nil || u != string(v) || string(want) != string(v) {
					o.Plan.GoViolations = append(o.Plan.GoViolations, GoViolation{Key: "data:string-text", Desc: fmt.Sprintf("string %q printed as %s does not unquote to itself", string(v), txt), Replay: map[string]any{"text": txt}})
				}
			}
		}
	}
	// real toolchain: assemble + link + read the bytes
	if nasm > n {
		nasm = n
	}
	got, rejected := assembleAndRead(c, cases[:nasm], asmText[:nasm])
	nRead := 0
	for j := 0; j < nasm; j++ {
		dc := cases[j]
		if msg, bad := rejected[j]; bad {
			key := "data:asm-rejects"
			if strings.Contains(msg, "overlapping DATA entry") {
				key = "data:asm-rejects:out-of-order"
			}
			if strings.Contains(msg, "/0") || hasZeroLen(dc) {
				key += ":zero-length"
			}
			o.Plan.GoViolations = append(o.Plan.GoViolations, GoViolation{Key: key, Desc: fmt.Sprintf("case %d: the assembler rejects the printed data section (%s): %s", j, firstLine(msg), strings.Join(dc.Desc, "; ")), Replay: map[string]any{"ops": dc.Desc, "asm": asmText[j], "error": msg}})
			continue
		}
		want := make([]byte, dc.G.Size)
		for di, d := range dc.G.Data {
			copy(want[d.Offset:], dc.Consts[di].Want)
		}
		if dc.G.Size > 0 {
			nRead++
			if string(got[j]) != string(want) {
				o.Plan.GoViolations = append(o.Plan.GoViolations, GoViolation{Key: "data:image", Desc: fmt.Sprintf("case %d: bytes of the linked symbol % x differ from the placed constants % x: %s", j, got[j], want, strings.Join(dc.Desc, "; ")), Replay: map[string]any{"ops": dc.Desc, "asm": asmText[j]}})
			}
		}
	}
	shard := 100
	var files []string
	for s := 0; s*shard < len(rows); s++ {
		hi := (s + 1) * shard
		if hi > len(rows) {
			hi = len(rows)
		}
		name := fmt.Sprintf("Cases%02d.v", s)
		var b strings.Builder
		b.WriteString(coqHeader + "From Avo Require Import Model.Data.\nOpen Scope Z_scope.\n")
		fmt.Fprintf(&b, "Definition cases : list data_case := %s.\n", cListNL(rows[s*shard:hi]))
		for _, ck := range [][3]string{
			{"R_mismatch", "negb (data_agree \"g\" c)", ""},
			{"R_violation", "negb (data_impl_ok c)", ""},
			{"R_replay_violation", "negb (data_replay_ok c)", ""}} {
			expr := strings.ReplaceAll(ck[1], "\"g\"", "(fst c0)")
			_ = expr
			fmt.Fprintf(&b, "Definition %s := Eval vm_compute in List.map (N.add %d) (idx_where (fun c => %s) cases).\nPrint %s.\n", ck[0], s*shard, strings.ReplaceAll(ck[1], "\"g\"", "(sym_of c)"), ck[0])
		}
		o.WriteFile(name, b.String())
		files = append(files, name)
		o.ExpectEmpty(name, "R_mismatch", "mismatch", "model of Global.AddDatum/Append/Grow and of the DATA line rendering vs ir.Global + printer")
		o.ExpectEmpty(name, "R_violation", "violation", "accepted data overlap, Size is not the furthest extent, or an integer constant's printed text does not denote its bytes")
		o.ExpectEmpty(name, "R_replay_violation", "violation", "an overlapping placement was accepted, a disjoint one rejected, or a constant was placed at another offset than requested")
	}
	o.Stage(files...)
	builderSections(c, NewRNG(c.Seed+1313))
	o.Plan.Rule = "random histories of 1..7 AddDatum/Append calls over all constant kinds (U8..U64, I8..I64 with boundary values, F32/F64 incl. -0, subnormals, integral values and the double-rounding witness, byte strings incl. empty, quotes, NUL, 0xff), offsets touching/overlapping/beyond existing data; printed with printer.NewGoAsm; the first cases are also assembled, linked and read back with the real toolchain; non-trivial = at least two operations; distinct by operation list"
	o.Plan.Stats["histories"] = n
	o.Plan.Stats["histories_with_rejected_op"] = nerr
	o.Plan.Stats["constants_by_kind"] = kinds
	o.Plan.EnvValidation["assembled_linked_and_read_back"] = nRead
	o.Plan.EnvValidation["rejected_by_assembler"] = len(rejected)
}

func hasZeroLen(dc *dataCase) bool {
	for _, d := range dc.G.Data {
		if d.Value.Bytes() == 0 {
			return true
		}
	}
	return false
}
func firstLine(s string) string {
	if i := strings.Index(s, "\n"); i >= 0 {
		return s[:i]
	}
	return s
}
