package main

import (
	"fmt"
	"os"
	"os/exec"
	"path/filepath"
	"regexp"
	"strconv"
	"strings"

	"github.com/mmcloughlin/avo/attr"
	"github.com/mmcloughlin/avo/build"
	"github.com/mmcloughlin/avo/buildtags"
	"github.com/mmcloughlin/avo/ir"
	"github.com/mmcloughlin/avo/operand"
	"github.com/mmcloughlin/avo/pass"
	"github.com/mmcloughlin/avo/printer"
	"github.com/mmcloughlin/avo/reg"
)

func init() { props["C11"] = c11 }

type genFile struct {
	F        *ir.File
	Desc     string
	NumFuncs int
	ArgBytes map[string]int64 // per function: the argument size of its signature under the Go ABI0 layout
}

var c11Sigs = []string{"func()", "func(x uint64) uint64", "func(a, b []byte) (n int)", "func(p *[4]uint32, s string)", "func(x struct{ a int8; b int64 }) (r float64)",
	"func(x uint16)", "func(p *uint64, n uint32)", "func(x uint64) bool", "func(c byte) (ok bool, n int)", "func(a [3]byte) (b uint32)"}

// argument sizes of c11Sigs as the Go compiler lays them out (parameters, results from the next pointer
// boundary, no padding after the last result); written down here, not asked of the code under test
var c11ArgBytes = map[string]int64{"func()": 0, "func(x uint64) uint64": 16, "func(a, b []byte) (n int)": 56, "func(p *[4]uint32, s string)": 24,
	"func(x struct{ a int8; b int64 }) (r float64)": 24, "func(x uint16)": 2, "func(p *uint64, n uint32)": 12, "func(x uint64) bool": 9,
	"func(c byte) (ok bool, n int)": 24, "func(a [3]byte) (b uint32)": 12}

// genPrintFile builds a random file through the public builder API
func genPrintFile(r *RNG, k int) *genFile {
	ctx := build.NewContext()
	g := &genFile{}
	if r.Chance(40) {
		ctx.ConstraintExpr(Pick(r, []string{"amd64", "amd64,!purego", "linux darwin", "go1.18,amd64 !appengine"}))
	}
	if r.Chance(25) {
		ctx.ConstraintExpr("gc")
	}
	nsec := 1 + r.Intn(4)
	var parts []string
	for s := 0; s < nsec; s++ {
		if r.Chance(30) {
			name := fmt.Sprintf("tab%d_%d", k, s)
			ctx.StaticGlobal(name)
			ctx.DataAttributes(Pick(r, []attr.Attribute{attr.RODATA | attr.NOPTR, attr.RODATA, attr.NOPTR, 0, attr.RODATA | 128}))
			nd := 1 + r.Intn(4)
			for j := 0; j < nd; j++ {
				c := randConst(r)
				if _, isStr := c.C.(operand.String); isStr && c.C.Bytes() == 0 {
					continue
				}
				if r.Chance(70) {
					ctx.AppendDatum(c.C)
				} else {
					ctx.AddDatum(64+16*j, c.C)
				}
			}
			parts = append(parts, "global "+name)
			continue
		}
		name := fmt.Sprintf("fn%d_%d", k, s)
		g.NumFuncs++
		ctx.Function(name)
		ctx.Attributes(Pick(r, []attr.Attribute{attr.NOSPLIT, 0, attr.NOSPLIT | attr.NOFRAME, attr.NOSPLIT | attr.NOPTR, attr.NOSPLIT | 128, attr.DUPOK | attr.NOSPLIT}))
		sigExpr := Pick(r, c11Sigs)
		ctx.SignatureExpr(sigExpr)
		if g.ArgBytes == nil {
			g.ArgBytes = map[string]int64{}
		}
		g.ArgBytes[name] = c11ArgBytes[sigExpr]
		if r.Chance(30) {
			ctx.Doc("doc line for "+name, "second line")
		}
		if r.Chance(25) {
			ctx.AllocLocal(8 * (1 + r.Intn(4)))
		}
		if r.Chance(8) {
			ctx.AllocLocal(1 + r.Intn(7)) // unaligned local
		}
		nn := r.Intn(18)
		// a few functions with one long uninterrupted run of instructions (unrolled kernels)
		long := 0
		if k >= 1 && k <= 9 && s == nsec-1 {
			long = []int{63, 64, 69, 78, 79, 127, 132, 200, 300}[k-1]
			nn = long
		}
		nl := 1 + nn/5
		defined := map[string]bool{}
		used := map[string]bool{}
		gp := []reg.GPVirtual{ctx.GP64(), ctx.GP64(), ctx.GP64()}
		xs := []reg.VecVirtual{ctx.XMM(), ctx.YMM()}
		for j := 0; j < nn; j++ {
			choice := r.Intn(16)
			if long > 0 {
				choice = 7 + r.Intn(7) // one instruction each: the block has long+1 instructions with the final RET
			}
			switch choice {
			case 0, 1:
				l := fmt.Sprintf("l%d", r.Intn(nl))
				if !defined[l] {
					defined[l] = true
					ctx.Label(l)
				}
			case 2:
				ctx.Comment("a comment", "with two lines")
			case 3:
				if r.Chance(15) {
					ctx.Comment() // a comment with no lines
				} else if r.Chance(30) {
					ctx.Comment("first line\nMOVQ AX, BX // second line of one comment string")
				} else if r.Chance(40) {
					ctx.Comment("100% of %d items, rate=%s%%")
				} else {
					ctx.Comment("trailing space ")
				}
			case 4:
				l := fmt.Sprintf("l%d", r.Intn(nl))
				used[l] = true
				ctx.JNE(operand.LabelRef(l))
			case 5:
				l := fmt.Sprintf("l%d", r.Intn(nl))
				used[l] = true
				ctx.JMP(operand.LabelRef(l))
			case 6:
				ctx.RET()
			case 7:
				ctx.MOVQ(operand.U32(r.Intn(100)), Pick(r, gp))
			case 8:
				ctx.ADDQ(Pick(r, gp), Pick(r, gp))
			case 9:
				ctx.MOVQ(operand.Mem{Base: Pick(r, gp), Index: Pick(r, gp), Scale: 8, Disp: r.Intn(64) - 16}, Pick(r, gp))
			case 10:
				ctx.VPADDD(xs[1], xs[1], xs[1])
			case 11:
				ctx.NOP()
			case 12:
				ctx.VZEROUPPER()
			case 13:
				ctx.MOVOU(xs[0], operand.Mem{Base: Pick(r, gp)})
			case 14:
				// one opcode with several suffix sets next to each other in one block
				z1, z2, z3, k1 := ctx.ZMM(), ctx.ZMM(), ctx.ZMM(), ctx.K()
				switch r.Intn(4) {
				case 0:
					ctx.VPXORQ(z1, z2, k1, z3)
				case 1:
					ctx.VADDPD(z1, z2, k1, z3)
					ctx.VADDPD_Z(z1, z2, k1, z3)
					ctx.VADDPD_RN_SAE(z1, z2, z3)
				case 2:
					ctx.VPADDD_Z(z1, z2, k1, z3)
					ctx.VPADDD_BCST(operand.Mem{Base: Pick(r, gp)}, z2, z3)
					ctx.VPADDD(z1, z2, z3)
				default:
					ctx.VADDPD_BCST_Z(operand.Mem{Base: Pick(r, gp)}, z2, k1, z3)
					ctx.VADDPD(z1, z2, z3)
				}
			default:
				ctx.XORQ(Pick(r, gp), Pick(r, gp))
			}
		}
		for l := range used {
			if !defined[l] {
				ctx.Label(l)
				defined[l] = true
			}
		}
		ctx.RET()
		parts = append(parts, fmt.Sprintf("func %s (%d nodes)", name, nn))
	}
	f, err := ctx.Result()
	if err != nil {
		die(fmt.Errorf("c11 builder: %v", err))
	}
	if r.Chance(20) {
		f.Includes = append(f.Includes, "funcdata.h")
	}
	// data sections reserved larger than their initialised entries, and one with no entries at all
	for _, sec := range f.Sections {
		if gl, ok := sec.(*ir.Global); ok && r.Chance(30) {
			gl.Grow(gl.Size + 8*(1+r.Intn(6)))
			parts = append(parts, "grown "+gl.Symbol.Name)
		}
	}
	if r.Chance(10) {
		eg := ir.NewStaticGlobal(fmt.Sprintf("bss%d", k))
		eg.Attributes = attr.NOPTR
		eg.Grow(8 * (1 + r.Intn(8)))
		f.AddSection(eg)
		parts = append(parts, "global without data "+eg.Symbol.Name)
	}
	g.F = f
	g.Desc = strings.Join(parts, "; ")
	return g
}

func cDatum(d ir.Datum) (string, string) {
	var cq string
	switch v := d.Value.(type) {
	case operand.U8:
		cq = fmt.Sprintf("(CInt 1 false %d)", uint64(v))
	case operand.U16:
		cq = fmt.Sprintf("(CInt 2 false %d)", uint64(v))
	case operand.U32:
		cq = fmt.Sprintf("(CInt 4 false %d)", uint64(v))
	case operand.U64:
		cq = fmt.Sprintf("(CInt 8 false %d)", uint64(v))
	case operand.I8:
		cq = fmt.Sprintf("(CInt 1 true %s)", cZ(int64(v)))
	case operand.I16:
		cq = fmt.Sprintf("(CInt 2 true %s)", cZ(int64(v)))
	case operand.I32:
		cq = fmt.Sprintf("(CInt 4 true %s)", cZ(int64(v)))
	case operand.I64:
		cq = fmt.Sprintf("(CInt 8 true %s)", cZ(int64(v)))
	case operand.F32:
		cq = "(CF32 0)"
	case operand.F64:
		cq = "(CF64 0)"
	case operand.String:
		var ns []uint64
		for _, b := range []byte(v) {
			ns = append(ns, uint64(b))
		}
		cq = "(CStr " + cNList(ns) + "%N)"
	}
	return fmt.Sprintf("{| d_off := %d; d_val := %s |}", d.Offset, cq), cStr(d.Value.Asm())
}

func pfileCoq(f *ir.File, warning string) string {
	cons := ""
	if len(f.Constraints) > 0 {
		s, err := buildtags.Format(f.Constraints)
		if err != nil {
			die(err)
		}
		cons = s
	}
	var secs []string
	for _, s := range f.Sections {
		switch x := s.(type) {
		case *ir.Function:
			secs = append(secs, fmt.Sprintf("SFunc {| pf_name := %s; pf_stub := %s; pf_isa := %s; pf_attrs := %d; pf_frame := %d; pf_args := %d; pf_nodes := %s |}",
				cStr(x.Name), cStr(x.Stub()), cStrs(x.ISA), uint64(x.Attributes), x.FrameBytes(), x.ArgumentBytes(), cNodes(x.Nodes)))
		case *ir.Global:
			var ds, vs []string
			for _, d := range x.Data {
				a, b := cDatum(d)
				ds = append(ds, a)
				vs = append(vs, b)
			}
			secs = append(secs, fmt.Sprintf("SGlobal {| pg_sym := %s; pg_static := %s; pg_attrs := %d; pg_data := %s; pg_value_text := %s; pg_size := %d |}",
				cStr(x.Symbol.Name), cBool(x.Symbol.Static), uint64(x.Attributes), cList(ds), cList(vs), x.Size))
		}
	}
	return fmt.Sprintf("{| pl_warning := %s; pl_constraints := %s; pl_includes := %s; pl_sections := %s |}", cStr(warning), cStr(cons), cStrs(f.Includes), cListNL(secs))
}

func c11(c *Ctx) {
	o := c.Out
	// tables: register names + attribute names
	vals, order, names := translateAttrNames(c.Repo)
	var nameRows []string
	for _, k := range order {
		nameRows = append(nameRows, cPair(cN(vals[k]), cStr(names[k])))
	}
	o.WriteFile("Tab.v", commonTab(c)+"From Avo Require Import Model.Attr.\nDefinition names : names_t := "+cList(nameRows)+".\n")
	o.Stage("Tab.v")
	o.Oblig("Tab.info_constants_ok")
	rng := NewRNG(c.Seed + 1100)
	n := 160
	if c.Thorough() {
		n = 3000
	}
	macros := map[string]uint64{}
	for _, d := range translateTextflagH() {
		if v, err := strconv.ParseUint(d[1], 0, 64); err == nil {
			macros[d[0]] = v
		}
	}
	cfg := printer.Config{Name: "avo", Pkg: "p"}
	dir := filepath.Join(c.Tmp, "c11")
	os.MkdirAll(dir, 0o755)
	inc := filepath.Join(goroot(), "pkg", "include")
	var rows []string
	nAsm, nFuncs := 0, 0
	sharedPr := printer.NewGoAsm(cfg)
	var prevHeld []byte
	prevSnap := ""
	for k := 0; k < n; k++ {
		g := genPrintFile(rng, k)
		if err := pass.Compile.Execute(g.F); err != nil {
			// a random program may exhaust registers etc.: compile errors are allowed outcomes, skip
			o.AddCase(Case{Key: "print:compile-error", Desc: g.Desc + " => " + err.Error(), Input: map[string]any{"file": g.Desc}, Nontrivial: false})
			rows = append(rows, "({| pl_warning := \"\"; pl_constraints := \"\"; pl_includes := []; pl_sections := [] |}, bs [47;47;10]%N)")
			continue
		}
		out, err := printer.NewGoAsm(cfg).Print(g.F)
		if err != nil {
			die(err)
		}
		idx := o.AddCase(Case{Key: "print:file", Desc: g.Desc, Input: map[string]any{"file": g.Desc, "text": string(out)}, Nontrivial: g.NumFuncs > 0})
		// printing reads the file: the same printer asked twice and a fresh one give the same bytes
		{
			pr := printer.NewGoAsm(cfg)
			o1, _ := pr.Print(g.F)
			o2, _ := pr.Print(g.F)
			// and a printer shared by all files of the run: what it returned for the previous file is still that text
			if k%7 == 3 { // a file the shared printer rightly refuses comes in between
				bad := ir.NewFile()
				bad.Constraints = buildtags.Constraints{{{"amd64\npurego"}}}
				if _, err := sharedPr.Print(bad); err == nil {
					o.Plan.GoViolations = append(o.Plan.GoViolations, GoViolation{Key: "print:unformattable-constraint-accepted", Desc: "a file whose constraint term contains a line break is printed without an error", Replay: map[string]any{"term": "amd64\npurego"}})
				}
			}
			nowHeld, _ := sharedPr.Print(g.F)
			if prevHeld != nil && string(prevHeld) != prevSnap {
				o.Plan.GoViolations = append(o.Plan.GoViolations, GoViolation{Key: "print:earlier-output-changed", Desc: fmt.Sprintf("case %d: the bytes the printer returned for the previous file changed when the same printer printed this one", idx), Replay: map[string]any{"returned": prevSnap, "now": string(prevHeld)}})
			}
			prevHeld = nowHeld
			prevSnap = string(prevHeld)
			if prevSnap != string(out) {
				o.Plan.GoViolations = append(o.Plan.GoViolations, GoViolation{Key: "print:not-repeatable", Desc: fmt.Sprintf("case %d: a printer that has printed other files before prints this file differently from a fresh one", idx), Replay: map[string]any{"file": g.Desc, "text": string(out), "second": prevSnap}})
			}
			if string(o1) != string(out) || string(o2) != string(out) {
				o.Plan.GoViolations = append(o.Plan.GoViolations, GoViolation{Key: "print:not-repeatable", Desc: fmt.Sprintf("case %d: printing the same file again gives different text (fresh printer: %v, same printer a second time: %v)", idx, string(o1) == string(out), string(o2) == string(out)), Replay: map[string]any{"file": g.Desc, "text": string(out), "second": string(o2)}})
			}
		}
		rows = append(rows, "("+pfileCoq(g.F, cfg.GeneratedWarning())+",\n   "+cStr(string(out))+")")
		nFuncs += g.NumFuncs
		// every data section is declared once with its size (GLOBL sym, flags, $size), after its DATA lines
		for _, sec := range g.F.Sections {
			gl, ok := sec.(*ir.Global)
			if !ok {
				continue
			}
			want := fmt.Sprintf("$%d", gl.Size)
			found := 0
			for _, ln := range strings.Split(string(out), "\n") {
				if strings.HasPrefix(ln, "GLOBL "+gl.Symbol.String()+",") || strings.HasPrefix(ln, "GLOBL "+gl.Symbol.String()+"(SB),") {
					found++
					if fm := globlFlagsRe.FindStringSubmatch(ln); fm != nil {
						if got, okf := evalFlags(fm[1], macros); !okf || got != uint64(gl.Attributes) {
							o.Plan.GoViolations = append(o.Plan.GoViolations, GoViolation{Key: "print:globl-flags", Desc: fmt.Sprintf("case %d: data section %s has attributes %d but its GLOBL line %q evaluates to %d", idx, gl.Symbol.Name, uint64(gl.Attributes), ln, got), Replay: map[string]any{"file": g.Desc, "text": string(out)}})
						}
					}
					if !strings.HasSuffix(strings.TrimSpace(ln), ", "+want) {
						o.Plan.GoViolations = append(o.Plan.GoViolations, GoViolation{Key: "print:globl-size", Desc: fmt.Sprintf("case %d: data section %s has size %d but is declared as %q", idx, gl.Symbol.Name, gl.Size, ln), Replay: map[string]any{"file": g.Desc, "text": string(out)}})
					}
				}
			}
			if found != 1 {
				o.Plan.GoViolations = append(o.Plan.GoViolations, GoViolation{Key: "print:globl-count", Desc: fmt.Sprintf("case %d: data section %s is declared %d times", idx, gl.Symbol.Name, found), Replay: map[string]any{"file": g.Desc, "text": string(out)}})
			}
		}
		// every function has one TEXT line carrying its frame size and argument size
		for _, sec := range g.F.Sections {
			fnSec, ok := sec.(*ir.Function)
			if !ok {
				continue
			}
			found := 0
			for _, ln := range strings.Split(string(out), "\n") {
				if !strings.HasPrefix(ln, "TEXT \u00b7"+fnSec.Name+"(SB)") {
					continue
				}
				found++
				m := textFrameRe.FindStringSubmatch(ln)
				frame, args := int64(-1), int64(0)
				if m != nil {
					frame, _ = strconv.ParseInt(m[1], 10, 64)
					if m[2] != "" {
						args, _ = strconv.ParseInt(m[2], 10, 64)
					}
				}
				if fm := textFlagsRe.FindStringSubmatch(ln); fm != nil {
					got, okf := uint64(0), true
					if fm[1] != "" {
						got, okf = evalFlags(fm[1], macros)
					}
					if !okf || got != uint64(fnSec.Attributes) {
						o.Plan.GoViolations = append(o.Plan.GoViolations, GoViolation{Key: "print:text-flags", Desc: fmt.Sprintf("case %d: function %s has attributes %d but its TEXT line %q evaluates to %d", idx, fnSec.Name, uint64(fnSec.Attributes), ln, got), Replay: map[string]any{"file": g.Desc, "text": string(out)}})
					}
				}
				wantArgs, known := g.ArgBytes[fnSec.Name]
				if !known {
					wantArgs = int64(fnSec.ArgumentBytes())
				}
				if frame != int64(fnSec.FrameBytes()) || args != wantArgs {
					o.Plan.GoViolations = append(o.Plan.GoViolations, GoViolation{Key: "print:text-sizes", Desc: fmt.Sprintf("case %d: function %s has frame %d and arguments %d but is declared as %q", idx, fnSec.Name, fnSec.FrameBytes(), wantArgs, ln), Replay: map[string]any{"file": g.Desc, "text": string(out)}})
				}
			}
			if found != 1 {
				o.Plan.GoViolations = append(o.Plan.GoViolations, GoViolation{Key: "print:text-count", Desc: fmt.Sprintf("case %d: function %s has %d TEXT lines", idx, fnSec.Name, found), Replay: map[string]any{"file": g.Desc, "text": string(out)}})
			}
		}
		// the assembler accepts the text, and sees the same number of instructions per function
		fn := filepath.Join(dir, fmt.Sprintf("f%d.s", k))
		ob := filepath.Join(dir, fmt.Sprintf("f%d.o", k))
		os.WriteFile(fn, out, 0o644)
		res, err := exec.Command("go", "tool", "asm", "-I", inc, "-p", "p", "-o", ob, fn).CombinedOutput()
		if err != nil {
			msg := firstLine(strings.TrimSpace(string(res)))
			key := "print:asm-rejects"
			if strings.Contains(msg, "unaligned") {
				key = "print:asm-rejects:unaligned-frame"
			}
			o.Plan.GoViolations = append(o.Plan.GoViolations, GoViolation{Key: key, Desc: fmt.Sprintf("case %d: the assembler rejects the printed file: %s", idx, msg), Replay: map[string]any{"file": g.Desc, "text": string(out)}})
		} else {
			nAsm++
			if dump, err := exec.Command("go", "tool", "objdump", ob).Output(); err == nil {
				checkObjdump(o, idx, g, string(dump), string(out))
			}
		}
		os.Remove(fn)
		os.Remove(ob)
	}
	shard := 20
	var files []string
	for s := 0; s*shard < len(rows); s++ {
		hi := (s + 1) * shard
		if hi > len(rows) {
			hi = len(rows)
		}
		name := fmt.Sprintf("Cases%02d.v", s)
		var b strings.Builder
		b.WriteString(progHeader + "From Avo Require Import Model.Data Model.Attr Model.AsmSyntax Model.PrintAsm.\n")
		fmt.Fprintf(&b, "Definition cases : list print_case := %s.\n", cListNL(rows[s*shard:hi]))
		fmt.Fprintf(&b, "Definition R_mismatch := Eval vm_compute in List.map (N.add %d) (idx_where (fun c => negb (print_agree names regs c)) cases).\nPrint R_mismatch.\n", s*shard)
		o.WriteFile(name, b.String())
		files = append(files, name)
		o.ExpectEmpty(name, "R_mismatch", "mismatch", "reference printer (structured lines rendered) vs printer.NewGoAsm output, byte for byte")
	}
	o.Stage(files...)
	o.Plan.Rule = "random files built through build.Context: 1..4 sections mixing functions (attribute sets, signatures, docs, locals, 0..17 nodes of labels/comments/instructions over GP, vector, mask and memory operands, branches, RET in the middle) and data sections (all constant kinds, explicit offsets), with and without constraints and extra includes; compiled with pass.Compile, printed, compared byte for byte with the Coq reference printer, assembled with `go tool asm` and the per-function instruction counts and branch targets read back with objdump; non-trivial = at least one function; distinct by file description"
	o.Plan.Stats["files"] = n
	o.Plan.Stats["functions"] = nFuncs
	o.Plan.EnvValidation["files_accepted_by_assembler"] = nAsm
}

// checkObjdump: every function has one TEXT block, and the source lines that produced machine code
// are exactly the instruction lines of the printed text (comment text never becomes code)
func checkObjdump(o *Out, idx int, g *genFile, dump string, text string) {
	lineRe := regexp.MustCompile(`\.s:(\d+)\s`)
	got := map[string]map[int]bool{}
	cur := ""
	for _, ln := range strings.Split(dump, "\n") {
		if strings.HasPrefix(ln, "TEXT ") {
			f := strings.Fields(ln)
			cur = strings.TrimSuffix(strings.TrimPrefix(f[1], "p."), "(SB)")
			got[cur] = map[int]bool{}
			continue
		}
		if m := lineRe.FindStringSubmatch(ln); m != nil && cur != "" {
			n := 0
			fmt.Sscanf(m[1], "%d", &n)
			got[cur][n] = true
		}
	}
	// expected: per function, the TEXT line and the lines that the program's nodes say are instructions
	lines := strings.Split(text, "\n")
	pos := 0
	for _, fn := range g.F.Functions() {
		for pos < len(lines) && !strings.HasPrefix(lines[pos], "TEXT \u00b7"+fn.Name+"(SB)") {
			pos++
		}
		if pos >= len(lines) {
			o.Plan.GoViolations = append(o.Plan.GoViolations, GoViolation{Key: "print:function-missing", Desc: fmt.Sprintf("case %d: no TEXT line for %s", idx, fn.Name)})
			return
		}
		want := map[int]bool{pos + 1: true}
		p := pos + 1
		misordered := ""
		for _, nd := range fn.Nodes {
			switch x := nd.(type) {
			case *ir.Instruction:
				for p < len(lines) && (lines[p] == "" || !strings.HasPrefix(lines[p], "\t"+x.OpcodeWithSuffixes())) {
					p++
				}
				if p >= len(lines) && misordered == "" {
					misordered = "instruction " + x.OpcodeWithSuffixes()
				}
				want[p+1] = true
				p++
			case ir.Label:
				for p < len(lines) && lines[p] != string(x)+":" {
					p++
				}
				if p >= len(lines) && misordered == "" {
					misordered = "label " + string(x)
				}
				p++
			}
		}
		// the function's text has one instruction line per instruction of the program, in order, whatever
		// the length of the block they stand in
		{
			var have []string
			for q := pos + 1; q < len(lines) && !strings.HasPrefix(lines[q], "TEXT ") && !strings.HasPrefix(lines[q], "DATA ") && !strings.HasPrefix(lines[q], "GLOBL "); q++ {
				if t := strings.TrimPrefix(lines[q], "\t"); t != lines[q] && !strings.HasPrefix(t, "//") && t != "" {
					have = append(have, strings.Fields(t)[0])
				}
			}
			var wantOps []string
			for _, in := range fn.Instructions() {
				wantOps = append(wantOps, in.OpcodeWithSuffixes())
			}
			if strings.Join(have, " ") != strings.Join(wantOps, " ") {
				at := 0
				for at < len(have) && at < len(wantOps) && have[at] == wantOps[at] {
					at++
				}
				o.Plan.GoViolations = append(o.Plan.GoViolations, GoViolation{Key: "print:instruction-lines", Desc: fmt.Sprintf("case %d: %s has %d instructions but its printed text has %d instruction lines (first difference at instruction %d)", idx, fn.Name, len(wantOps), len(have), at+1), Replay: map[string]any{"file": g.Desc, "text": text}})
				return
			}
		}
		if misordered != "" {
			o.Plan.GoViolations = append(o.Plan.GoViolations, GoViolation{Key: "print:node-out-of-order", Desc: fmt.Sprintf("case %d: in %s the %s is not printed after the node that precedes it in the program (labels and instructions must appear in program order)", idx, fn.Name, misordered), Replay: map[string]any{"file": g.Desc, "text": text}})
			return
		}
		g0, ok := got[fn.Name]
		if !ok {
			o.Plan.GoViolations = append(o.Plan.GoViolations, GoViolation{Key: "print:function-missing", Desc: fmt.Sprintf("case %d: function %s is not in the object file", idx, fn.Name)})
			continue
		}
		for n := range g0 {
			if !want[n] {
				o.Plan.GoViolations = append(o.Plan.GoViolations, GoViolation{Key: "print:text-became-code", Desc: fmt.Sprintf("case %d: line %d of the printed file (%q) produced machine code in %s but is not an instruction of the program", idx, n, lines[n-1], fn.Name), Replay: map[string]any{"file": g.Desc, "text": text}})
				break
			}
		}
		vex := false
		for _, isa := range fn.ISA {
			if strings.HasPrefix(isa, "AVX") || strings.HasPrefix(isa, "FMA") || strings.HasPrefix(isa, "BMI") {
				vex = true // go tool objdump cannot decode VEX/EVEX and loses line attribution after them
			}
		}
		for n := range want {
			if !vex && !g0[n] && n != pos+1 && strings.TrimSpace(lines[n-1]) != "NOP" { // the assembler's NOP is a pseudo-instruction that emits nothing
				o.Plan.GoViolations = append(o.Plan.GoViolations, GoViolation{Key: "print:instruction-lost", Desc: fmt.Sprintf("case %d: instruction line %d (%q) of %s produced no machine code", idx, n, lines[n-1], fn.Name), Replay: map[string]any{"file": g.Desc, "text": text}})
				break
			}
		}
	}
}

// evalFlags evaluates a flags expression as the assembler does (macro names of textflag.h and decimal
// numbers joined by |); ok=false if a token is neither
func evalFlags(expr string, macros map[string]uint64) (v uint64, ok bool) {
	expr = strings.TrimSpace(expr)
	if expr == "" {
		return 0, false
	}
	for _, tok := range strings.Split(expr, "|") {
		tok = strings.TrimSpace(tok)
		if m, isM := macros[tok]; isM {
			v |= m
		} else if n, err := strconv.ParseUint(tok, 0, 64); err == nil {
			v |= n
		} else {
			return 0, false
		}
	}
	return v, true
}

var textFlagsRe = regexp.MustCompile(`^TEXT [^,]*,(?: ([^,$]*),)? \$`)
var globlFlagsRe = regexp.MustCompile(`^GLOBL [^,]*, ([^,$]*), \$`)
