package main

import (
	"bytes"
	"crypto/sha256"
	"fmt"
	"github.com/mmcloughlin/avo/buildtags"
	"github.com/mmcloughlin/avo/gotypes"
	"github.com/mmcloughlin/avo/operand"
	"github.com/mmcloughlin/avo/x86"
	"go/ast"
	"go/importer"
	"go/parser"
	"go/token"
	"go/types"
	"os"
	"os/exec"
	"path/filepath"
	"sort"
	"strconv"
	"strings"

	"github.com/mmcloughlin/avo/build"
	"github.com/mmcloughlin/avo/ir"
	"github.com/mmcloughlin/avo/pass"
	"github.com/mmcloughlin/avo/printer"
	"github.com/mmcloughlin/avo/reg"
)

func init() {
	props["C17"] = c17
	props["C17child"] = c17child
}

// mapRanges lists every `range` over a map-typed expression in the hand-written (non z*.go,
// non-test) files of the given avo packages: "pkg/file.go:Func:expr".
func mapRanges(repo string) []string {
	pkgs := []string{"attr", "build", "buildtags", "gotypes", "ir", "operand", "pass", "printer", "reg", "internal/prnt", "x86"}
	var out []string
	for _, pk := range pkgs {
		fset := token.NewFileSet()
		dir := filepath.Join(repo, pk)
		ents, _ := os.ReadDir(dir)
		var files []*ast.File
		for _, e := range ents {
			n := e.Name()
			if !strings.HasSuffix(n, ".go") || strings.HasSuffix(n, "_test.go") || strings.HasPrefix(n, "make_") {
				continue
			}
			f, err := parser.ParseFile(fset, filepath.Join(dir, n), nil, 0)
			if err != nil {
				die(err)
			}
			if f.Name.Name == "main" {
				continue
			}
			files = append(files, f)
		}
		info := &types.Info{Types: map[ast.Expr]types.TypeAndValue{}}
		conf := types.Config{Importer: importer.ForCompiler(fset, "source", nil), Error: func(error) {}}
		conf.Check("github.com/mmcloughlin/avo/"+pk, fset, files, info)
		for _, f := range files {
			fname := filepath.Base(fset.Position(f.Pos()).Filename)
			if strings.HasPrefix(fname, "z") {
				continue
			}
			for _, d := range f.Decls {
				fd, ok := d.(*ast.FuncDecl)
				if !ok || fd.Body == nil {
					continue
				}
				ast.Inspect(fd.Body, func(n ast.Node) bool {
					rs, ok := n.(*ast.RangeStmt)
					if !ok {
						return true
					}
					tv, ok := info.Types[rs.X]
					if !ok || tv.Type == nil {
						out = append(out, fmt.Sprintf("%s/%s:%s:<untyped>", pk, fname, fd.Name.Name))
						return true
					}
					if _, isMap := tv.Type.Underlying().(*types.Map); isMap {
						var b bytes.Buffer
						ast.Fprint(&b, nil, nil, nil)
						out = append(out, fmt.Sprintf("%s/%s:%s:%s", pk, fname, fd.Name.Name, exprString(rs.X)))
					}
					return true
				})
			}
		}
	}
	sort.Strings(out)
	return out
}

func exprString(e ast.Expr) string {
	switch x := e.(type) {
	case *ast.Ident:
		return x.Name
	case *ast.SelectorExpr:
		return exprString(x.X) + "." + x.Sel.Name
	case *ast.CallExpr:
		return exprString(x.Fun) + "()"
	}
	return "?"
}

var (
	c17UseShared                bool
	c17SharedAsm, c17SharedStub printer.Printer
)

// failedGenerations: what else may have happened in the process before a generation: files that are rightly
// refused by the printers the generator keeps (a constraint that cannot be formatted, a function name that is
// not an identifier)
func failedGenerations() {
	defer func() { recover() }()
	if c17SharedAsm == nil {
		return
	}
	bad := ir.NewFile()
	bad.Constraints = buildtags.Constraints{{{"amd64\npurego"}}}
	fn := ir.NewFunction("sum-pairs")
	fn.SetSignature(gotypes.NewSignatureVoid())
	fn.AddInstruction(&ir.Instruction{Opcode: "RET", IsTerminal: true})
	bad.AddSection(fn)
	c17SharedAsm.Print(bad)
	c17SharedStub.Print(bad)
	bad.Constraints = nil
	c17SharedStub.Print(bad)
}

func buildOutputs(p *Prog) (string, error) {
	fn := p.Function()
	f := ir.NewFile()
	f.AddSection(fn)
	if err := pass.Compile.Execute(f); err != nil {
		return "ERR:" + err.Error(), nil
	}
	cfg := printer.Config{Name: "avo", Pkg: "p"}
	pa, ps := printer.NewGoAsm(cfg), printer.NewStubs(cfg)
	if c17UseShared { // the printers a long-running generator keeps for all its files
		if c17SharedAsm == nil {
			c17SharedAsm, c17SharedStub = pa, ps
		}
		pa, ps = c17SharedAsm, c17SharedStub
	}
	a, err := pa.Print(f)
	if err != nil {
		return "", err
	}
	s, err := ps.Print(f)
	if err != nil {
		return "", err
	}
	var al []string
	for v, ph := range fn.Allocation {
		al = append(al, fmt.Sprintf("%d->%d", v, ph))
	}
	sort.Strings(al)
	return string(a) + "\n---\n" + string(s) + "\n---\n" + strings.Join(al, ","), nil
}

func c17Progs(seed uint64, n int) []*Prog {
	rng := NewRNG(seed + 4000)
	progs := append(pipelineCorpus(), largeProgs()...)
	// instructions with two results that are both used afterwards, with 2..9 other values live across them:
	// the shapes on which an order-dependent set operation in liveness changes the colouring
	for t := 2; t <= 9; t++ {
		for variant := 0; variant < 2; variant++ {
			p := &Prog{Desc: fmt.Sprintf("two results both used, %d values live across (%s)", t, []string{"MULQ", "XCHGQ"}[variant]), Tags: map[string]bool{"corpus": true}}
			coll := reg.NewCollection()
			add := func(i *ir.Instruction, err error) {
				if err != nil {
					die(err)
				}
				p.Nodes = append(p.Nodes, i)
			}
			var tmp []reg.GPVirtual
			for k := 0; k < t; k++ {
				v := coll.GP64()
				tmp = append(tmp, v)
				add(x86.MOVQ(operand.U32(uint32(k+1)), v))
			}
			a, b, acc := coll.GP64(), coll.GP64(), coll.GP64()
			add(x86.MOVQ(operand.U32(3), a))
			add(x86.MOVQ(operand.U32(4), b))
			if variant == 0 {
				add(x86.MOVQ(a, reg.RAX))
				add(x86.MULQ(b))
				add(x86.MOVQ(reg.RAX, acc))
				add(x86.ADDQ(reg.RDX, acc))
			} else {
				add(x86.XCHGQ(a, b))
				add(x86.MOVQ(a, acc))
				add(x86.ADDQ(b, acc))
			}
			for _, v := range tmp {
				add(x86.ADDQ(v, acc))
			}
			add(x86.MOVQ(acc, operand.Mem{Base: reg.RSP, Disp: 8}))
			add(x86.RET())
			progs = append(progs, p)
		}
	}
	for len(progs) < n {
		nv := []int{4, 10, 14, 16, 22}[rng.Intn(5)]
		progs = append(progs, genProg(rng, ProgOpts{MaxNodes: 10 + rng.Intn(60), Phys: rng.Chance(60), Synth: false, NVirt: nv, Branches: rng.Chance(60)}))
	}
	return progs
}

func safeBuild(p *Prog) (s string) {
	defer func() {
		if v := recover(); v != nil {
			s = fmt.Sprint("PANIC:", v)
		}
	}()
	out, err := buildOutputs(p)
	if err != nil {
		return "PRINTERR:" + err.Error()
	}
	return out
}

// perturb does, between two generations of the same program, what another part of a user's generator might
// do in the same process: allocate with allocators of its own (custom priorities, its own interference),
// draw registers from collections, build and compile an unrelated program.  None of it may influence the
// next generation.
func perturb(r *RNG) {
	defer func() { recover() }()
	for _, k := range []reg.Kind{reg.KindGP, reg.KindVector, reg.KindOpmask} {
		a, err := pass.NewAllocatorForKind(k)
		if err != nil {
			continue
		}
		for _, pr := range reg.FamilyOfKind(k).Registers() {
			if r.Bool() {
				a.SetPriority(pr.ID(), r.Intn(9)-4)
			}
		}
		coll := reg.NewCollection()
		var vs []reg.Register
		for j := 0; j < 2+r.Intn(5); j++ {
			var v reg.Register
			switch k {
			case reg.KindGP:
				v = coll.GP64()
			case reg.KindVector:
				v = coll.XMM()
			default:
				v = coll.K()
			}
			a.Add(v.ID())
			for _, w := range vs {
				if r.Chance(70) {
					a.AddInterference(v.ID(), w.ID())
				}
			}
			vs = append(vs, v)
		}
		a.Allocate()
	}
	safeBuild(genProg(r, ProgOpts{MaxNodes: 8 + r.Intn(20), Phys: r.Bool(), NVirt: 3 + r.Intn(14), Branches: r.Bool()}))
}

// child: print one hash per program (fresh process = fresh hash seed)
func c17child(c *Ctx) {
	n := 150
	if c.Thorough() {
		n = 1500
	}
	// what a process generated before, and in which order, must not matter: each child starts differently
	// (nothing, a function without register operands, a vector-only one, a mask-only one) and goes through the
	// programs in its own order; the hashes are printed in the programs' own order
	progs := c17Progs(c.Seed, n)
	variant, _ := strconv.Atoi(os.Getenv("VH_C17_VARIANT"))
	starter := func(build func(add func(*ir.Instruction, error), coll *reg.Collection)) {
		p := &Prog{Desc: "starter"}
		coll := reg.NewCollection()
		build(func(i *ir.Instruction, err error) {
			if err == nil {
				p.Nodes = append(p.Nodes, i)
			}
		}, coll)
		safeBuild(p)
	}
	order := make([]int, len(progs))
	for j := range order {
		order[j] = j
	}
	switch variant % 4 {
	case 1:
		starter(func(add func(*ir.Instruction, error), coll *reg.Collection) { add(x86.VZEROUPPER()); add(x86.RET()) })
		for j := range order {
			order[j] = len(progs) - 1 - j
		}
	case 2:
		starter(func(add func(*ir.Instruction, error), coll *reg.Collection) {
			a, b := coll.YMM(), coll.YMM()
			add(x86.VPXOR(a, a, a))
			add(x86.VPADDD(a, a, b))
			add(x86.RET())
		})
		for j := range order {
			order[j] = (j + len(progs)/2) % len(progs)
		}
	case 3:
		starter(func(add func(*ir.Instruction, error), coll *reg.Collection) {
			k1, k2 := coll.K(), coll.K()
			add(x86.KXORQ(k1, k1, k1))
			add(x86.KORQ(k1, k1, k2))
			add(x86.RET())
		})
	}
	hashes := make([]string, len(progs))
	for _, j := range order {
		hashes[j] = fmt.Sprintf("%x", sha256.Sum256([]byte(safeBuild(progs[j]))))
	}
	for _, h := range hashes {
		fmt.Println(h)
	}
}

func c17(c *Ctx) {
	o := c.Out
	n := 150
	reps := 12
	procs := 4
	if c.Thorough() {
		n, reps, procs = 1500, 30, 8
	}
	progs := c17Progs(c.Seed, n)
	// a fresh collection / context hands out the same registers whatever was generated before in the process
	firstIDs := func() string {
		coll := reg.NewCollection()
		ctx := build.NewContext()
		return fmt.Sprint(coll.GP64().ID(), coll.GP8H().ID(), coll.XMM().ID(), coll.K().ID(), coll.GP32().ID(), ctx.GP64().ID(), ctx.ZMM().ID(), ctx.K().ID())
	}
	ids0 := firstIDs()
	defer func() {
		o.AddCase(Case{Key: "determinism:fresh-collection", Desc: "registers drawn from a fresh reg.Collection and a fresh build.Context before and after all generations", Input: map[string]any{"before": ids0}, Nontrivial: true})
		if ids1 := firstIDs(); ids1 != ids0 {
			o.Plan.GoViolations = append(o.Plan.GoViolations, GoViolation{Key: "determinism:fresh-collection", Desc: fmt.Sprintf("a fresh collection/context handed out registers %s at the start of the process and %s after the generations", ids0, ids1), Replay: map[string]any{"before": ids0, "after": ids1}})
		}
	}()
	ref := make([]string, len(progs))
	prng := NewRNG(c.Seed + 1717)
	diffs := 0
	okc := 0
	for j, p := range progs {
		ref[j] = safeBuild(p)
		nt := !strings.HasPrefix(ref[j], "ERR:") && len(p.Nodes) > 5
		if nt {
			okc++
		}
		idx := o.AddCase(Case{Key: "determinism:in-process", Desc: p.Text(), Input: map[string]any{"prog": p.Text()}, Nontrivial: nt})
		for r := 1; r < reps; r++ {
			if r%2 == 0 {
				perturb(prng)
			}
			c17UseShared = r%3 == 1
			if r%6 == 4 {
				failedGenerations()
				c17UseShared = true
			}
			got := safeBuild(p)
			c17UseShared = false
			if got != ref[j] {
				diffs++
				o.Plan.GoViolations = append(o.Plan.GoViolations, GoViolation{Key: "determinism:in-process",
					Desc:   fmt.Sprintf("generation %d of the same program differs from generation 0 (case %d): %s", r, idx, p.Text()),
					Replay: map[string]any{"prog": p.Text(), "first": ref[j], "other": got, "repetition": r}})
				break
			}
		}
	}
	// fresh processes
	self, _ := os.Executable()
	for k := 0; k < procs; k++ {
		cmd := exec.Command(self, "C17child", "-seed", fmt.Sprint(c.Seed), "-tier", c.Tier, "-out", filepath.Join(c.Tmp, fmt.Sprintf("child%d", k)))
		cmd.Env = append(os.Environ(), fmt.Sprintf("VH_C17_VARIANT=%d", k))
		out, err := cmd.Output()
		if err != nil {
			die(fmt.Errorf("child: %v", err))
		}
		lines := strings.Fields(string(out))
		for j := range progs {
			want := fmt.Sprintf("%x", sha256.Sum256([]byte(ref[j])))
			if j >= len(lines) || lines[j] != want {
				diffs++
				o.Plan.GoViolations = append(o.Plan.GoViolations, GoViolation{Key: "determinism:cross-process",
					Desc:   fmt.Sprintf("fresh process %d produced different output for case %d: %s", k, j, progs[j].Text()),
					Replay: map[string]any{"prog": progs[j].Text(), "process": k}})
				break
			}
		}
	}
	// inventory of ranged maps vs the list the Coq development covers
	rs := mapRanges(c.Repo)
	var b strings.Builder
	b.WriteString(coqHeader + "From Avo Require Import Model.Determinism.\nOpen Scope string_scope.\n")
	fmt.Fprintf(&b, "Definition found_ranges : list string := %s.\n", cListNL(mapStr(rs, cStr)))
	b.WriteString("Definition R_uncovered := Eval vm_compute in indices_of_uncovered found_ranges.\nPrint R_uncovered.\n")
	b.WriteString("Lemma ranges_covered : forallb (fun r => existsb (String.eqb r) (List.map fst covered_ranges)) found_ranges = true.\nProof. vm_compute. reflexivity. Qed.\nPrint Assumptions ranges_covered.\n")
	o.WriteFile("Ranges.v", b.String())
	o.Stage("Ranges.v")
	o.Oblig("Ranges.ranges_covered")
	o.ExpectEmpty("Ranges.v", "R_uncovered", "obligation", "a `range` over a Go map appears in hand-written avo code that the order-independence theorems do not cover")
	o.Plan.Rule = fmt.Sprintf("each program is compiled and printed (assembly + stubs + allocation) %d times in one process with fresh contexts (Go randomises map iteration per range) and once in each of %d fresh processes (fresh hash seeds); between in-process generations other allocations (allocators with custom priorities and interference), register draws and an unrelated compilation take place; all outputs must be byte-identical; non-trivial = compilation succeeded and the program has more than 5 nodes; distinct by program text", reps, procs)
	o.Plan.Stats["programs"] = len(progs)
	o.Plan.Stats["repetitions_in_process"] = reps
	o.Plan.Stats["fresh_processes"] = procs
	o.Plan.Stats["compiled_ok"] = okc
	o.Plan.Stats["differences"] = diffs
	o.Plan.Stats["ranged_maps_found"] = rs
	o.Plan.Stats["extra_evaluations"] = len(progs) * (reps - 1 + procs)
	o.Plan.Samples = []any{progs[0].Text(), progs[len(progs)/2].Text()}
}

func mapStr(xs []string, f func(string) string) []string {
	out := make([]string, len(xs))
	for i, x := range xs {
		out[i] = f(x)
	}
	return out
}
