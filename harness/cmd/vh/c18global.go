package main

import (
	"fmt"
	"strings"

	"github.com/mmcloughlin/avo/attr"
	"github.com/mmcloughlin/avo/build"
	"github.com/mmcloughlin/avo/buildtags"
	"github.com/mmcloughlin/avo/gotypes"
	"github.com/mmcloughlin/avo/ir"
	"github.com/mmcloughlin/avo/operand"
	"github.com/mmcloughlin/avo/pass"
	"github.com/mmcloughlin/avo/printer"
	"github.com/mmcloughlin/avo/reg"
	"github.com/mmcloughlin/avo/x86"
)

// The package-level functions of package build (build/global.go and the instruction wrappers of
// build/zinstructions.go) are the API most generators use.  Every history below is run twice: through
// the methods of a fresh Context, and through the package-level functions after giving them a fresh
// context (hook build.VerifSwapGlobal); the error messages and the printed files must be identical.

type gop struct {
	Desc string
	Ctx  func(c *build.Context, st *gstate)
	Glob func(st *gstate)
}
type gstate struct {
	regs  []reg.Register // drawn registers, in order
	mems  []operand.Mem
	comps []gotypes.Component
}

func (st *gstate) gp64() reg.Register {
	for i := len(st.regs) - 1; i >= 0; i-- {
		if st.regs[i].Kind() == reg.KindGP && st.regs[i].Size() == 8 {
			return st.regs[i]
		}
	}
	return reg.RAX
}

const gsig = "func(x uint64, s []byte, p *struct{ a, b int32 }, f float64) (r uint64, q uint32)"

func globalOps() []gop {
	draw := func(name string, c func(*build.Context) reg.Register, g func() reg.Register) gop {
		return gop{name, func(cx *build.Context, st *gstate) { st.regs = append(st.regs, c(cx)) }, func(st *gstate) { st.regs = append(st.regs, g()) }}
	}
	return []gop{
		{"TEXT", func(c *build.Context, st *gstate) {
			c.Function("f")
			c.Attributes(attr.NOSPLIT)
			c.SignatureExpr(gsig)
		}, func(st *gstate) { build.TEXT("f", attr.NOSPLIT, gsig) }},
		{"Function", func(c *build.Context, st *gstate) { c.Function("g") }, func(st *gstate) { build.Function("g") }},
		{"Doc", func(c *build.Context, st *gstate) { c.Doc("first line", "second") }, func(st *gstate) { build.Doc("first line", "second") }},
		{"Pragma", func(c *build.Context, st *gstate) { c.Pragma("noescape") }, func(st *gstate) { build.Pragma("noescape") }},
		{"Pragma(args)", func(c *build.Context, st *gstate) { c.Pragma("nosplit", "a", "b") }, func(st *gstate) { build.Pragma("nosplit", "a", "b") }},
		{"Attributes", func(c *build.Context, st *gstate) { c.Attributes(attr.NOSPLIT | attr.NOPTR) }, func(st *gstate) { build.Attributes(attr.NOSPLIT | attr.NOPTR) }},
		{"SignatureExpr", func(c *build.Context, st *gstate) { c.SignatureExpr(gsig) }, func(st *gstate) { build.SignatureExpr(gsig) }},
		{"SignatureExpr(bad)", func(c *build.Context, st *gstate) { c.SignatureExpr("func(") }, func(st *gstate) { build.SignatureExpr("func(") }},
		{"AllocLocal", func(c *build.Context, st *gstate) { st.mems = append(st.mems, c.AllocLocal(24)) }, func(st *gstate) { st.mems = append(st.mems, build.AllocLocal(24)) }},
		{"Label", func(c *build.Context, st *gstate) { c.Label("loop") }, func(st *gstate) { build.Label("loop") }},
		{"Comment", func(c *build.Context, st *gstate) { c.Comment("one", "two") }, func(st *gstate) { build.Comment("one", "two") }},
		{"Commentf", func(c *build.Context, st *gstate) { c.Commentf("n=%d %s", 7, "x") }, func(st *gstate) { build.Commentf("n=%d %s", 7, "x") }},
		draw("GP8L", func(c *build.Context) reg.Register { return c.GP8L() }, func() reg.Register { return build.GP8L() }),
		draw("GP8H", func(c *build.Context) reg.Register { return c.GP8H() }, func() reg.Register { return build.GP8H() }),
		draw("GP8", func(c *build.Context) reg.Register { return c.GP8() }, func() reg.Register { return build.GP8() }),
		draw("GP16", func(c *build.Context) reg.Register { return c.GP16() }, func() reg.Register { return build.GP16() }),
		draw("GP32", func(c *build.Context) reg.Register { return c.GP32() }, func() reg.Register { return build.GP32() }),
		draw("GP64", func(c *build.Context) reg.Register { return c.GP64() }, func() reg.Register { return build.GP64() }),
		draw("XMM", func(c *build.Context) reg.Register { return c.XMM() }, func() reg.Register { return build.XMM() }),
		draw("YMM", func(c *build.Context) reg.Register { return c.YMM() }, func() reg.Register { return build.YMM() }),
		draw("ZMM", func(c *build.Context) reg.Register { return c.ZMM() }, func() reg.Register { return build.ZMM() }),
		draw("K", func(c *build.Context) reg.Register { return c.K() }, func() reg.Register { return build.K() }),
		{"Load(Param x)", func(c *build.Context, st *gstate) { c.Load(c.Param("x"), st.gp64()) }, func(st *gstate) { build.Load(build.Param("x"), st.gp64()) }},
		{"Load(ParamIndex 0)", func(c *build.Context, st *gstate) { c.Load(c.ParamIndex(0), st.gp64()) }, func(st *gstate) { build.Load(build.ParamIndex(0), st.gp64()) }},
		{"Load(s.Len)", func(c *build.Context, st *gstate) { c.Load(c.Param("s").Len(), st.gp64()) }, func(st *gstate) { build.Load(build.Param("s").Len(), st.gp64()) }},
		{"Load(unknown)", func(c *build.Context, st *gstate) { c.Load(c.Param("nosuch"), st.gp64()) }, func(st *gstate) { build.Load(build.Param("nosuch"), st.gp64()) }},
		{"Store(Return r)", func(c *build.Context, st *gstate) { c.Store(st.gp64(), c.Return("r")) }, func(st *gstate) { build.Store(st.gp64(), build.Return("r")) }},
		{"Store(ReturnIndex 1)", func(c *build.Context, st *gstate) { c.Store(reg.ECX, c.ReturnIndex(1)) }, func(st *gstate) { build.Store(reg.ECX, build.ReturnIndex(1)) }},
		{"Dereference", func(c *build.Context, st *gstate) {
			r := c.Load(c.Param("p"), st.gp64())
			c.Load(c.Dereference(c.Param("p")).Field("b"), reg.EDX)
			_ = r
		}, func(st *gstate) {
			r := build.Load(build.Param("p"), st.gp64())
			build.Load(build.Dereference(build.Param("p")).Field("b"), reg.EDX)
			_ = r
		}},
		{"ConstData", func(c *build.Context, st *gstate) { st.mems = append(st.mems, c.ConstData("k", operand.U64(77))) }, func(st *gstate) { st.mems = append(st.mems, build.ConstData("k", operand.U64(77))) }},
		{"GLOBL", func(c *build.Context, st *gstate) {
			st.mems = append(st.mems, c.StaticGlobal("tbl"))
			c.DataAttributes(attr.RODATA | attr.NOPTR)
		}, func(st *gstate) { st.mems = append(st.mems, build.GLOBL("tbl", attr.RODATA|attr.NOPTR)) }},
		{"DATA", func(c *build.Context, st *gstate) { c.AddDatum(8, operand.U32(5)) }, func(st *gstate) { build.DATA(8, operand.U32(5)) }},
		{"DATA(overlap)", func(c *build.Context, st *gstate) { c.AddDatum(10, operand.U32(5)) }, func(st *gstate) { build.DATA(10, operand.U32(5)) }},
		{"Package", func(c *build.Context, st *gstate) { c.Package("example.com/nosuchpkg") }, func(st *gstate) { build.Package("example.com/nosuchpkg") }},
		{"Constraints", func(c *build.Context, st *gstate) { c.Constraints(buildtags.Term("amd64")) }, func(st *gstate) { build.Constraints(buildtags.Term("amd64")) }},
		{"Constraint", func(c *build.Context, st *gstate) {
			c.Constraint(buildtags.Opt(buildtags.Term("linux"), buildtags.Not("purego")))
		}, func(st *gstate) { build.Constraint(buildtags.Opt(buildtags.Term("linux"), buildtags.Not("purego"))) }},
		{"ConstraintExpr", func(c *build.Context, st *gstate) { c.ConstraintExpr("go1.18,!appengine") }, func(st *gstate) { build.ConstraintExpr("go1.18,!appengine") }},
		{"ConstraintExpr(empty)", func(c *build.Context, st *gstate) { c.ConstraintExpr("") }, func(st *gstate) { build.ConstraintExpr("") }},
		{"Implement(unknown)", func(c *build.Context, st *gstate) { c.Implement("Nope") }, func(st *gstate) { build.Implement("Nope") }},
		{"ADDQ", func(c *build.Context, st *gstate) { c.ADDQ(operand.U8(3), st.gp64()) }, func(st *gstate) { build.ADDQ(operand.U8(3), st.gp64()) }},
		{"ADDQ(bad)", func(c *build.Context, st *gstate) { c.ADDQ(reg.EAX, st.gp64()) }, func(st *gstate) { build.ADDQ(reg.EAX, st.gp64()) }},
		{"MOVQ to local", func(c *build.Context, st *gstate) {
			if len(st.mems) > 0 {
				c.MOVQ(st.gp64(), st.mems[len(st.mems)-1])
			}
		}, func(st *gstate) {
			if len(st.mems) > 0 {
				build.MOVQ(st.gp64(), st.mems[len(st.mems)-1])
			}
		}},
		{"VPADDD", func(c *build.Context, st *gstate) { c.VPADDD(reg.X1, reg.X2, reg.X3) }, func(st *gstate) { build.VPADDD(reg.X1, reg.X2, reg.X3) }},
		{"JMP loop", func(c *build.Context, st *gstate) { c.JNE(operand.LabelRef("loop")) }, func(st *gstate) { build.JNE(operand.LabelRef("loop")) }},
		{"Instruction", func(c *build.Context, st *gstate) {
			if i, err := pseudoNop(); err == nil {
				c.Instruction(i)
			}
		}, func(st *gstate) {
			if i, err := pseudoNop(); err == nil {
				build.Instruction(i)
			}
		}},
		{"RET", func(c *build.Context, st *gstate) { c.RET() }, func(st *gstate) { build.RET() }},
	}
}

// outcome of a history: error messages (without source positions) and, when there are none and the file
// compiles, the printed assembly and stubs
func globalOutcome(c *build.Context, st *gstate) string {
	f, err := c.Result()
	var b strings.Builder
	for _, r := range st.regs {
		fmt.Fprintf(&b, "R:%d/%d/%T\n", uint64(r.ID()), r.Size(), r)
	}
	for _, m := range st.mems {
		b.WriteString("M:" + m.Asm() + "\n")
	}
	if err != nil {
		if el, ok := err.(build.ErrorList); ok {
			for _, e := range el {
				b.WriteString("E:" + e.Err.Error() + "\n")
			}
		} else {
			b.WriteString("E:" + err.Error() + "\n")
		}
		return b.String()
	}
	if err := pass.Compile.Execute(f); err != nil {
		return b.String() + "C:" + err.Error()
	}
	cfg := printer.Config{Name: "avo", Pkg: "p"}
	a, e1 := printer.NewGoAsm(cfg).Print(f)
	s, e2 := printer.NewStubs(cfg).Print(f)
	return b.String() + fmt.Sprintf("%s\n---\n%s\n%v %v", a, s, e1, e2)
}

func globalAPI(c *Ctx) {
	o := c.Out
	rng := NewRNG(c.Seed + 1818)
	ops := globalOps()
	n := 150
	if c.Thorough() {
		n = 3000
	}
	used := map[string]int{}
	for j := 0; j < n; j++ {
		k := 3 + rng.Intn(14)
		var seq []int
		if j < len(ops) { // every wrapper at least once, right after TEXT
			seq = []int{0, j, len(ops) - 1}
		} else {
			seq = append(seq, 0)
			for a := 0; a < k; a++ {
				seq = append(seq, rng.Intn(len(ops)))
			}
			if rng.Chance(80) {
				seq = append(seq, len(ops)-1)
			}
		}
		var ds []string
		for _, x := range seq {
			ds = append(ds, ops[x].Desc)
			used[ops[x].Desc]++
		}
		run := func(global bool) (out string) {
			defer func() {
				if v := recover(); v != nil {
					out = fmt.Sprint("PANIC:", v)
				}
			}()
			cx := build.NewContext()
			st := &gstate{}
			if global {
				old := build.VerifSwapGlobal(cx)
				defer build.VerifSwapGlobal(old)
				for _, x := range seq {
					ops[x].Glob(st)
				}
			} else {
				for _, x := range seq {
					ops[x].Ctx(cx, st)
				}
			}
			return globalOutcome(cx, st)
		}
		viaCtx, viaGlobal := run(false), run(true)
		idx := o.AddCase(Case{Key: "builder:global-api", Desc: "package-level functions vs Context methods: " + strings.Join(ds, "; "), Input: map[string]any{"calls": ds}, Nontrivial: len(seq) >= 3})
		if viaCtx != viaGlobal {
			key := "builder:global-api-differs"
			if strings.HasPrefix(viaGlobal, "PANIC:") {
				key = "builder:global-api-panics"
			}
			o.Plan.GoViolations = append(o.Plan.GoViolations, GoViolation{Key: key, Desc: fmt.Sprintf("case %d: the package-level functions and the Context methods disagree on %s", idx, strings.Join(ds, "; ")), Replay: map[string]any{"calls": ds, "context": viaCtx, "global": viaGlobal}})
		}
	}
	o.Plan.Stats["global_api_histories"] = n
	o.Plan.Stats["global_api_calls"] = used
}

func pseudoNop() (*ir.Instruction, error) { return x86.NOP() }
