package main

import (
	"fmt"
	"github.com/mmcloughlin/avo/attr"
	"github.com/mmcloughlin/avo/ir"
	"github.com/mmcloughlin/avo/operand"
	"github.com/mmcloughlin/avo/reg"
	"github.com/mmcloughlin/avo/x86"
	"strings"
)

func addI(p *Prog, i *ir.Instruction, err error) {
	if err == nil && i != nil {
		p.Nodes = append(p.Nodes, i)
	}
}

// programs for the clean-up passes
func genCleanupProg(r *RNG) *Prog {
	p := &Prog{Tags: map[string]bool{}, Attrs: attr.NOSPLIT}
	coll := reg.NewCollection()
	nv := 1 + r.Intn(3)
	var gp []reg.GPVirtual
	for j := 0; j < nv; j++ {
		gp = append(gp, coll.GP64())
	}
	x := []reg.VecVirtual{coll.XMM(), coll.XMM()}
	ks := []reg.OpmaskVirtual{coll.K(), coll.K()}
	pickGP := func() reg.GP {
		if r.Chance(20) {
			return Pick(r, physGP64[:6])
		}
		return Pick(r, gp)
	}
	n := 4 + r.Intn(30)
	nl := 1 + n/5
	for len(p.Nodes) < n {
		switch r.Intn(16) {
		case 14:
			// moves between the few opmask registers: a narrow self-move truncates the mask
			ka, kb := Pick(r, ks), Pick(r, ks)
			switch r.Intn(4) {
			case 0:
				addI(p, must(x86.KMOVB(ka, kb)), nil)
			case 1:
				addI(p, must(x86.KMOVW(ka, kb)), nil)
			case 2:
				addI(p, must(x86.KMOVD(ka, kb)), nil)
			default:
				addI(p, must(x86.KMOVQ(ka, kb)), nil)
			}
			p.Tags["kmov"] = true
		case 15:
			// vector moves between the two vector registers (VEX moves clear the bits above the operand width)
			xa, xb := Pick(r, x), Pick(r, x)
			switch r.Intn(3) {
			case 0:
				addI(p, must(x86.VMOVDQA(xa, xb)), nil)
			case 1:
				addI(p, must(x86.MOVAPS(xa, xb)), nil)
			default:
				addI(p, must(x86.VMOVDQU(xa.AsY(), xb.AsY())), nil)
			}
			p.Tags["vmov"] = true
		case 0:
			a, b := pickGP(), pickGP()
			addI(p, must(x86.MOVQ(a.As64(), b.As64())), nil)
			p.Tags["movq"] = true
		case 1:
			a, b := pickGP(), pickGP()
			addI(p, must(x86.MOVL(a.As32(), b.As32())), nil)
			p.Tags["movl"] = true
		case 2:
			a, b := pickGP(), pickGP()
			addI(p, must(x86.MOVW(a.As16(), b.As16())), nil)
		case 3:
			a, b := pickGP(), pickGP()
			va := Pick(r, []func(reg.GP) reg.Register{reg.GP.As8L, reg.GP.As8H})
			vb := Pick(r, []func(reg.GP) reg.Register{reg.GP.As8L, reg.GP.As8H})
			if pa, ok := a.(reg.GPPhysical); ok && pa.PhysicalIndex() >= 4 {
				va = reg.GP.As8L
			}
			if pb, ok := b.(reg.GPPhysical); ok && pb.PhysicalIndex() >= 4 {
				vb = reg.GP.As8L
			}
			addI(p, must(x86.MOVB(va(a), vb(b))), nil)
			p.Tags["movb"] = true
		case 4:
			addI(p, must(x86.MOVQ(Pick(r, x), Pick(r, x))), nil)
			p.Tags["movq-xmm"] = true
		case 5:
			addI(p, must(x86.MOVQ(operand.U32(r.Intn(9)), pickGP().As64())), nil)
		case 6:
			addI(p, must(x86.ADDQ(pickGP().As64(), pickGP().As64())), nil)
		case 7, 8:
			l := ir.Label(string(rune('a' + r.Intn(nl))))
			dup := false
			for _, nd := range p.Nodes {
				if nd == ir.Node(l) {
					dup = true
				}
			}
			if !dup {
				// jump to the immediately following label, sometimes
				if r.Chance(50) {
					addI(p, must(x86.JMP(operand.LabelRef(string(l)))), nil)
					p.Tags["jump-to-next"] = true
				}
				p.Nodes = append(p.Nodes, l)
			}
		case 9:
			addI(p, must(x86.JNE(operand.LabelRef(string(rune('a'+r.Intn(nl)))))), nil)
		case 10:
			addI(p, must(x86.JMP(operand.LabelRef(string(rune('a'+r.Intn(nl)))))), nil)
		case 11:
			p.Nodes = append(p.Nodes, ir.NewComment("c"))
		case 12:
			addI(p, must(x86.MOVQ(pickGP().As64(), operand.Mem{Base: reg.RSI})), nil)
		case 13:
			a := pickGP()
			addI(p, must(x86.MOVQ(a.As64(), a.As64())), nil)
			p.Tags["literal-self-move"] = true
		}
	}
	// define the labels that are referenced but missing
	used := map[string]bool{}
	def := map[string]bool{}
	for _, nd := range p.Nodes {
		if i, ok := nd.(*ir.Instruction); ok && i.IsBranch {
			if l := i.TargetLabel(); l != nil {
				used[string(*l)] = true
			}
		}
		if l, ok := nd.(ir.Label); ok {
			def[string(l)] = true
		}
	}
	for _, l := range sortedKeys(used) {
		if !def[l] {
			pos := r.Intn(len(p.Nodes))
			p.Nodes = append(p.Nodes[:pos], append([]ir.Node{ir.Label(l)}, p.Nodes[pos:]...)...)
		}
	}
	addI(p, must(x86.RET()), nil)
	return p
}

func cleanupCorpus() []*Prog {
	var ps []*Prog
	mk := func(desc string, f func(p *Prog, c *reg.Collection)) {
		p := &Prog{Desc: desc, Tags: map[string]bool{"corpus": true}, Attrs: attr.NOSPLIT}
		f(p, reg.NewCollection())
		ps = append(ps, p)
	}
	mk("MOVL r,r on a physical register zero-extends and must survive", func(p *Prog, c *reg.Collection) {
		addI(p, must(x86.MOVQ(operand.I64(-1), reg.RAX)), nil)
		addI(p, must(x86.MOVL(reg.EAX, reg.EAX)), nil)
		addI(p, must(x86.RET()), nil)
	})
	mk("KMOVW k,k and KMOVB k,k truncate the mask and must survive", func(p *Prog, c *reg.Collection) {
		addI(p, must(x86.KMOVQ(reg.RAX, reg.K1)), nil)
		addI(p, must(x86.KMOVW(reg.K1, reg.K1)), nil)
		addI(p, must(x86.KMOVB(reg.K1, reg.K1)), nil)
		addI(p, must(x86.KMOVQ(reg.K1, reg.RAX)), nil)
		addI(p, must(x86.RET()), nil)
	})
	mk("a truncating mask copy whose destination is allocated to its dying source", func(p *Prog, c *reg.Collection) {
		k1, k2 := c.K(), c.K()
		addI(p, must(x86.KMOVQ(reg.RAX, k1)), nil)
		addI(p, must(x86.KMOVW(k1, k2)), nil)
		addI(p, must(x86.KMOVQ(k2, reg.RAX)), nil)
		addI(p, must(x86.RET()), nil)
	})
	mk("MOVQ X0,X0 clears the upper half and must survive", func(p *Prog, c *reg.Collection) {
		addI(p, must(x86.MOVQ(reg.X0, reg.X0)), nil)
		addI(p, must(x86.RET()), nil)
	})
	mk("two adjacent self-moves (the scan skips the node after a deletion)", func(p *Prog, c *reg.Collection) {
		addI(p, must(x86.MOVQ(reg.RAX, reg.RAX)), nil)
		addI(p, must(x86.MOVQ(reg.RBX, reg.RBX)), nil)
		addI(p, must(x86.MOVQ(reg.RCX, reg.RCX)), nil)
		addI(p, must(x86.RET()), nil)
	})
	mk("high-to-low byte move of one register is not a self-move", func(p *Prog, c *reg.Collection) {
		v := c.GP64()
		addI(p, must(x86.MOVQ(operand.U32(0x1234), v)), nil)
		addI(p, must(x86.MOVB(v.As8H(), v.As8L())), nil)
		addI(p, must(x86.MOVQ(v, operand.Mem{Base: reg.RSI})), nil)
		addI(p, must(x86.RET()), nil)
	})
	mk("chain of jumps to following labels", func(p *Prog, c *reg.Collection) {
		addI(p, must(x86.JMP(operand.LabelRef("a"))), nil)
		p.Nodes = append(p.Nodes, ir.Label("a"))
		addI(p, must(x86.JMP(operand.LabelRef("b"))), nil)
		p.Nodes = append(p.Nodes, ir.Label("b"))
		addI(p, must(x86.JNE(operand.LabelRef("a"))), nil)
		addI(p, must(x86.RET()), nil)
	})
	mk("jump over a label run", func(p *Prog, c *reg.Collection) {
		addI(p, must(x86.JMP(operand.LabelRef("b"))), nil)
		p.Nodes = append(p.Nodes, ir.Label("a"), ir.Label("b"))
		addI(p, must(x86.RET()), nil)
	})
	return ps
}

// programs for the frame-pointer rule
func genBPProg(r *RNG) *Prog {
	p := &Prog{Tags: map[string]bool{}}
	p.Attrs = Pick(r, []attr.Attribute{0, attr.NOSPLIT, attr.NOFRAME, attr.NOSPLIT | attr.NOFRAME, attr.NOSPLIT | attr.NOPTR})
	if r.Chance(40) {
		p.Local = 8 * (1 + r.Intn(3))
	}
	coll := reg.NewCollection()
	switch r.Intn(4) {
	case 0: // explicit write through a view
		view := Pick(r, []reg.Register{reg.BPB, reg.BP, reg.EBP, reg.RBP})
		p.Tags["explicit-bp"] = true
		switch view.Size() {
		case 1:
			addI(p, must(x86.MOVB(operand.U8(1), view)), nil)
		case 2:
			addI(p, must(x86.MOVW(operand.U16(1), view)), nil)
		case 4:
			addI(p, must(x86.MOVL(operand.U32(1), view)), nil)
		default:
			addI(p, must(x86.MOVQ(operand.U32(1), view)), nil)
		}
	case 1: // read only
		addI(p, must(x86.MOVQ(reg.RBP, reg.RAX)), nil)
		p.Tags["bp-read-only"] = true
	case 2: // synthetic instruction with BP only among the outputs
		i := &ir.Instruction{Opcode: "SYN", Operands: []operand.Op{reg.RAX}, Inputs: []operand.Op{reg.RAX}, Outputs: []operand.Op{reg.RAX, reg.EBP}}
		p.Nodes = append(p.Nodes, i)
		p.Tags["explicit-bp"] = true
	default: // pressure
		k := 13 + r.Intn(4)
		if k >= 15 {
			p.Tags["pressure15"] = true
		}
		var vs []reg.GPVirtual
		if r.Chance(40) { // values written only by 32-bit (or 16/8-bit) instructions
			p.Tags["pressure-narrow"] = true
			w := r.Intn(3)
			for j := 0; j < k; j++ {
				switch w {
				case 0:
					v := coll.GP32()
					vs = append(vs, v)
					addI(p, must(x86.MOVL(operand.U32(uint32(j)), v)), nil)
				case 1:
					v := coll.GP16()
					vs = append(vs, v)
					addI(p, must(x86.MOVW(operand.U16(uint16(j)), v)), nil)
				default:
					v := coll.GP8()
					vs = append(vs, v)
					addI(p, must(x86.MOVB(operand.U8(uint8(j)), v)), nil)
				}
			}
			for j := 1; j < k; j++ {
				switch w {
				case 0:
					addI(p, must(x86.ADDL(vs[j], vs[0])), nil)
				case 1:
					addI(p, must(x86.ADDW(vs[j], vs[0])), nil)
				default:
					addI(p, must(x86.ADDB(vs[j], vs[0])), nil)
				}
			}
		} else {
			for j := 0; j < k; j++ {
				v := coll.GP64()
				vs = append(vs, v)
				addI(p, must(x86.MOVQ(operand.U32(uint32(j)), v)), nil)
			}
			for j := 1; j < k; j++ {
				addI(p, must(x86.ADDQ(vs[j], vs[0])), nil)
			}
		}
	}
	// the function may also make a call or a system call: the frame rule does not depend on it
	switch r.Intn(6) {
	case 0:
		addI(p, must(x86.SYSCALL()), nil)
		p.Tags["syscall"] = true
	case 1:
		addI(p, must(x86.CALL(operand.LabelRef("runtime·nanotime1(SB)"))), nil)
		p.Tags["call"] = true
	}
	addI(p, must(x86.RET()), nil)
	return p
}

// indexedLocalProgs: stack locals (and arguments) addressed with a virtual index register while other
// values are live: the index is a register the instruction reads although the base is a pseudo register
func indexedLocalProgs(r *RNG, n int) []*Prog {
	var ps []*Prog
	for k := 0; k < n; k++ {
		p := &Prog{Tags: map[string]bool{"indexed-local": true}, Attrs: attr.NOSPLIT, Local: 64}
		coll := reg.NewCollection()
		nv := 2 + r.Intn(11)
		var vs []reg.GPVirtual
		i := coll.GP64()
		if r.Bool() { // the index is set before the values (they are then defined while it is live) or after them
			addI(p, must(x86.MOVQ(operand.U32(uint32(r.Intn(4))), i)), nil)
		}
		for j := 0; j < nv; j++ {
			v := coll.GP64()
			vs = append(vs, v)
			addI(p, must(x86.MOVQ(operand.U32(uint32(10+j)), v)), nil)
		}
		if len(p.Nodes) == nv {
			addI(p, must(x86.MOVQ(operand.U32(uint32(r.Intn(4))), i)), nil)
		}
		for j := 0; j < nv; j++ {
			var m operand.Mem
			if r.Chance(80) {
				m = idxMem(stackMem(8*(j%4)), i, Pick(r, []uint8{1, 8}))
			} else {
				m = idxMem(paramMem("x", 0), i, 8)
			}
			if r.Bool() {
				addI(p, must(x86.MOVQ(vs[j], m)), nil)
			} else {
				addI(p, must(x86.ADDQ(m, vs[j])), nil)
			}
		}
		for j := 1; j < nv; j++ {
			addI(p, must(x86.ADDQ(vs[j], vs[0])), nil)
		}
		addI(p, must(x86.MOVQ(vs[0], reg.RAX)), nil)
		addI(p, must(x86.RET()), nil)
		ps = append(ps, p)
	}
	return ps
}

// largeProgs: the same shapes as the small corpus, at a scale where small-integer counters, caches with a
// fixed number of slots, chunked loops and "only for big inputs" fast paths come into play: hundreds of
// instructions, of virtual registers, of interference edges, dozens of labels and of wide vector values.
func largeProgs(kinds ...string) []*Prog {
	var ps []*Prog
	want := func(desc string) bool {
		if len(kinds) == 0 {
			return true
		}
		for _, k := range kinds {
			if strings.Contains(desc, k) {
				return true
			}
		}
		return false
	}
	mk := func(desc string, attrs attr.Attribute, f func(p *Prog, c *reg.Collection)) {
		if !want(desc) {
			return
		}
		p := &Prog{Desc: desc, Tags: map[string]bool{"large": true}, Attrs: attrs}
		f(p, reg.NewCollection())
		ps = append(ps, p)
	}
	// sum of n loaded words, two fresh registers per term (n=400: 800 instructions, > 1024 interference records)
	for _, n := range []int{400} {
		n := n
		mk(fmt.Sprintf("sum of %d loaded words, a fresh register per term", n), attr.NOSPLIT, func(p *Prog, c *reg.Collection) {
			ptr, acc := c.GP64(), c.GP64()
			addI(p, must(x86.MOVQ(operand.U32(4096), ptr)), nil)
			addI(p, must(x86.XORQ(acc, acc)), nil)
			for j := 0; j < n; j++ {
				t := c.GP64()
				addI(p, must(x86.MOVQ(operand.Mem{Base: ptr, Disp: 8 * j}, t)), nil)
				addI(p, must(x86.ADDQ(t, acc)), nil)
			}
			addI(p, must(x86.MOVQ(acc, reg.RAX)), nil)
			addI(p, must(x86.RET()), nil)
		})
	}
	// a loop whose body is longer than 256 / 512 instructions, two values live around the back edge
	for _, n := range []int{255, 300, 600} {
		n := n
		mk(fmt.Sprintf("loop with a body of %d instructions", n), attr.NOSPLIT, func(p *Prog, c *reg.Collection) {
			x, y := c.GP64(), c.GP64()
			addI(p, must(x86.MOVQ(operand.U32(40), x)), nil)
			addI(p, must(x86.MOVQ(operand.U32(2), y)), nil)
			p.Nodes = append(p.Nodes, ir.Label("loop"))
			for j := 0; j < n; j++ {
				addI(p, must(x86.ADDQ(operand.U8(1), reg.RCX)), nil)
			}
			addI(p, must(x86.JNE(operand.LabelRef("loop"))), nil)
			addI(p, must(x86.ADDQ(y, x)), nil)
			addI(p, must(x86.MOVQ(x, reg.RAX)), nil)
			addI(p, must(x86.RET()), nil)
		})
	}
	// more than 64 distinct 32-bit destinations, each combined later (the 32-bit writes are widened to 64 bits)
	mk("80 values written through 32-bit views", attr.NOSPLIT, func(p *Prog, c *reg.Collection) {
		acc := c.GP64()
		addI(p, must(x86.XORQ(acc, acc)), nil)
		var vs []reg.GPVirtual
		for j := 0; j < 80; j++ {
			v := c.GP64()
			vs = append(vs, v)
			addI(p, must(x86.MOVL(operand.U32(uint32(j)), v.As32())), nil)
			addI(p, must(x86.ADDL(operand.U8(1), v.As32())), nil)
			addI(p, must(x86.ADDQ(v, acc)), nil)
		}
		for j := 0; j < 12; j++ { // the first registers again, after all the others have been seen
			addI(p, must(x86.MOVL(operand.U32(uint32(100+j)), vs[j].As32())), nil)
			addI(p, must(x86.ADDQ(vs[j], acc)), nil)
		}
		addI(p, must(x86.MOVQ(acc, reg.RAX)), nil)
		addI(p, must(x86.RET()), nil)
	})
	// n wide vector values live at once: 24 and 32 fit the register file, 33 do not
	for _, n := range []int{24, 32, 33} {
		n := n
		mk(fmt.Sprintf("%d ZMM values live at once", n), attr.NOSPLIT, func(p *Prog, c *reg.Collection) {
			var vs []reg.VecVirtual
			for j := 0; j < n; j++ {
				v := c.ZMM()
				vs = append(vs, v)
				addI(p, must(x86.VPXORQ(v, v, v)), nil)
			}
			for j := 1; j < n; j++ {
				addI(p, must(x86.VPADDQ(vs[j], vs[0], vs[0])), nil)
			}
			addI(p, must(x86.VMOVDQU64(vs[0], operand.Mem{Base: reg.RAX})), nil)
			addI(p, must(x86.RET()), nil)
		})
	}
	// 150-term inner product with the implicit registers of MULQ: more than 64 values wait for a register at once
	mk("150-term inner product with MULQ", attr.NOSPLIT, func(p *Prog, c *reg.Collection) {
		px, py, lo, hi := c.GP64(), c.GP64(), c.GP64(), c.GP64()
		addI(p, must(x86.MOVQ(operand.U32(4096), px)), nil)
		addI(p, must(x86.MOVQ(operand.U32(8192), py)), nil)
		addI(p, must(x86.XORQ(lo, lo)), nil)
		addI(p, must(x86.XORQ(hi, hi)), nil)
		for j := 0; j < 150; j++ {
			t := c.GP64()
			addI(p, must(x86.MOVQ(operand.Mem{Base: px, Disp: 8 * j}, reg.RAX)), nil)
			addI(p, must(x86.MOVQ(operand.Mem{Base: py, Disp: 8 * j}, t)), nil)
			addI(p, must(x86.MULQ(t)), nil)
			addI(p, must(x86.ADDQ(reg.RAX, lo)), nil)
			addI(p, must(x86.ADCQ(reg.RDX, hi)), nil)
		}
		addI(p, must(x86.MOVQ(lo, reg.RAX)), nil)
		addI(p, must(x86.MOVQ(hi, reg.RDX)), nil)
		addI(p, must(x86.RET()), nil)
	})
	// dozens of unreferenced labels and of jumps to the following label between the instructions
	for _, n := range []int{33, 100} {
		n := n
		mk(fmt.Sprintf("%d unreferenced labels and %d jumps to the following label", n, n), attr.NOSPLIT, func(p *Prog, c *reg.Collection) {
			acc := c.GP64()
			addI(p, must(x86.XORQ(acc, acc)), nil)
			for j := 0; j < n; j++ {
				p.Nodes = append(p.Nodes, ir.Label(fmt.Sprintf("dangling%d", j)))
				addI(p, must(x86.ADDQ(operand.U8(uint8(1+j%100)), acc)), nil)
				addI(p, must(x86.JMP(operand.LabelRef(fmt.Sprintf("next%d", j)))), nil)
				p.Nodes = append(p.Nodes, ir.Label(fmt.Sprintf("next%d", j)))
			}
			addI(p, must(x86.MOVQ(acc, reg.RAX)), nil)
			addI(p, must(x86.RET()), nil)
		})
	}
	// a long function that writes the base pointer: named at the very end, and by pressure
	mk("300 instructions, then a write to the base pointer", attr.NOSPLIT, func(p *Prog, c *reg.Collection) {
		acc := c.GP64()
		addI(p, must(x86.XORQ(acc, acc)), nil)
		for j := 0; j < 300; j++ {
			addI(p, must(x86.ADDQ(operand.U8(1), acc)), nil)
		}
		addI(p, must(x86.MOVQ(acc, reg.RBP)), nil)
		addI(p, must(x86.MOVQ(reg.RBP, reg.RAX)), nil)
		addI(p, must(x86.RET()), nil)
		p.Tags["explicit-bp"] = true
	})
	mk("fifteen live values inside a function of 300 instructions (the allocator has to use the base pointer)", attr.NOSPLIT, func(p *Prog, c *reg.Collection) {
		var vs []reg.GPVirtual
		for j := 0; j < 15; j++ {
			v := c.GP64()
			vs = append(vs, v)
			addI(p, must(x86.MOVQ(operand.U32(uint32(j)), v)), nil)
		}
		for j := 0; j < 270; j++ {
			addI(p, must(x86.ADDQ(vs[(j+1)%15], vs[j%15])), nil)
		}
		for j := 1; j < 15; j++ {
			addI(p, must(x86.ADDQ(vs[j], vs[0])), nil)
		}
		addI(p, must(x86.MOVQ(vs[0], operand.Mem{Base: reg.RSP, Disp: 8})), nil)
		addI(p, must(x86.RET()), nil)
		p.Tags["pressure15"] = true
	})
	return ps
}
