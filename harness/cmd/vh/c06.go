package main

import (
	"bytes"
	"errors"
	"fmt"
	"github.com/mmcloughlin/avo/pass"
	"github.com/mmcloughlin/avo/printer"
	"go/ast"
	"go/parser"
	"go/token"
	"os"
	"os/exec"
	"path/filepath"
	"reflect"
	"sort"
	"strings"

	"github.com/mmcloughlin/avo/build"
	"github.com/mmcloughlin/avo/ir"
	"github.com/mmcloughlin/avo/operand"
	"github.com/mmcloughlin/avo/reg"
	"github.com/mmcloughlin/avo/x86"
)

func init() { props["C06"] = c06 }

// constNames reads a `const ( prefixA T = iota; prefixB; ... )` block of x86/zoptab.go syntactically
func constNames(f *ast.File, prefix string) []string {
	var out []string
	for _, d := range f.Decls {
		gd, ok := d.(*ast.GenDecl)
		if !ok || gd.Tok != token.CONST {
			continue
		}
		var names []string
		for _, sp := range gd.Specs {
			vs := sp.(*ast.ValueSpec)
			for _, n := range vs.Names {
				names = append(names, n.Name)
			}
		}
		if len(names) > 0 && strings.HasPrefix(names[0], prefix) && names[0] == prefix+"None" {
			for _, n := range names {
				out = append(out, strings.TrimPrefix(n, prefix))
			}
			return out
		}
	}
	return nil
}

type ctorInfo struct {
	Name     string
	Params   []string
	Doc      [][]string // documented forms: tokens of each line
	Callee   string     // build | c.addinstruction(x86.X | ctx.X
	Opcode   string
	Suffixes []string
	Args     []string
}

func docForms(doc *ast.CommentGroup) [][]string {
	if doc == nil {
		return nil
	}
	var out [][]string
	in := false
	for _, ln := range strings.Split(doc.Text(), "\n") {
		t := strings.TrimSpace(ln)
		if t == "Forms:" {
			in = true
			continue
		}
		if in {
			if t == "" {
				if len(out) > 0 {
					in = false
				}
				continue
			}
			if !strings.HasPrefix(ln, "\t") && !strings.HasPrefix(ln, " ") {
				in = false
				continue
			}
			out = append(out, strings.Fields(t))
		}
	}
	return out
}

func paramNames(ft *ast.FuncType) []string {
	var ps []string
	if ft.Params == nil {
		return ps
	}
	for _, f := range ft.Params.List {
		_, variadic := f.Type.(*ast.Ellipsis)
		for _, n := range f.Names {
			if variadic {
				ps = append(ps, n.Name+"...")
			} else {
				ps = append(ps, n.Name)
			}
		}
	}
	return ps
}

func identList(es []ast.Expr) []string {
	var out []string
	for _, e := range es {
		out = append(out, exprString(e))
	}
	return out
}

// layer 1: x86/zctors.go
func readCtors(repo string) map[string]*ctorInfo {
	fset := token.NewFileSet()
	f, err := parser.ParseFile(fset, filepath.Join(repo, "x86", "zctors.go"), nil, parser.ParseComments)
	if err != nil {
		die(err)
	}
	out := map[string]*ctorInfo{}
	for _, d := range f.Decls {
		fd, ok := d.(*ast.FuncDecl)
		if !ok || fd.Recv != nil || !fd.Name.IsExported() {
			continue
		}
		ci := &ctorInfo{Name: fd.Name.Name, Params: paramNames(fd.Type), Doc: docForms(fd.Doc), Callee: "?"}
		if len(fd.Body.List) == 1 {
			if rs, ok := fd.Body.List[0].(*ast.ReturnStmt); ok && len(rs.Results) == 1 {
				if call, ok := rs.Results[0].(*ast.CallExpr); ok && exprString(call.Fun) == "build" && len(call.Args) == 3 {
					ci.Callee = "build"
					ci.Opcode = strings.TrimSuffix(strings.TrimPrefix(exprString(call.Args[0]), "opc"), ".Forms()")
					if cl, ok := call.Args[1].(*ast.CompositeLit); ok {
						for _, e := range cl.Elts {
							ci.Suffixes = append(ci.Suffixes, strings.TrimPrefix(exprString(e), "sffx"))
						}
					}
					if cl, ok := call.Args[2].(*ast.CompositeLit); ok {
						ci.Args = identList(cl.Elts)
					} else if id, ok := call.Args[2].(*ast.Ident); ok {
						ci.Args = []string{id.Name + "..."} // the variadic slice itself
					}
				}
			}
		}
		out[ci.Name] = ci
	}
	return out
}

// layers 2 and 3: build/zinstructions.go
func readBuildLayers(repo string) (ctxm, glob map[string]*ctorInfo) {
	fset := token.NewFileSet()
	f, err := parser.ParseFile(fset, filepath.Join(repo, "build", "zinstructions.go"), nil, parser.ParseComments)
	if err != nil {
		die(err)
	}
	ctxm, glob = map[string]*ctorInfo{}, map[string]*ctorInfo{}
	for _, d := range f.Decls {
		fd, ok := d.(*ast.FuncDecl)
		if !ok || !fd.Name.IsExported() {
			continue
		}
		ci := &ctorInfo{Name: fd.Name.Name, Params: paramNames(fd.Type), Doc: docForms(fd.Doc), Callee: "?"}
		if len(fd.Body.List) == 1 {
			if es, ok := fd.Body.List[0].(*ast.ExprStmt); ok {
				if call, ok := es.X.(*ast.CallExpr); ok {
					if fd.Recv != nil && exprString(call.Fun) == "c.addinstruction" && len(call.Args) == 1 {
						if inner, ok := call.Args[0].(*ast.CallExpr); ok {
							ci.Callee = "c.addinstruction(" + exprString(inner.Fun)
							ci.Args = identList(inner.Args)
							if inner.Ellipsis.IsValid() && len(ci.Args) > 0 {
								ci.Args[len(ci.Args)-1] += "..."
							}
						}
					}
					if fd.Recv == nil {
						ci.Callee = exprString(call.Fun)
						ci.Args = identList(call.Args)
						if call.Ellipsis.IsValid() && len(ci.Args) > 0 {
							ci.Args[len(ci.Args)-1] += "..."
						}
					}
				}
			}
		}
		if fd.Recv != nil {
			ctxm[ci.Name] = ci
		} else {
			glob[ci.Name] = ci
		}
	}
	return
}

// sample operands of each operand type
func samplesFor(t string, r *RNG, coll *reg.Collection) []operand.Op {
	mem := func() operand.Op {
		m := operand.Mem{Base: Pick(r, []reg.Register{reg.RSI, reg.R13, reg.RAX}), Disp: r.Intn(3) * 8}
		if r.Chance(40) {
			m.Index = Pick(r, []reg.Register{reg.RCX, reg.R9})
			m.Scale = Pick(r, []uint8{1, 2, 4, 8})
		}
		if r.Chance(20) {
			return paramMem("x", 8)
		}
		if r.Chance(15) { // pseudo-register base (stack or argument area) with an index register
			ix := Pick(r, []reg.Register{reg.RCX, reg.R9, reg.RDX})
			if r.Bool() {
				return idxMem(stackMem(8*r.Intn(3)), ix, Pick(r, []uint8{1, 2, 4, 8}))
			}
			return idxMem(paramMem("x", 8*r.Intn(2)), ix, Pick(r, []uint8{1, 8}))
		}
		return m
	}
	switch t {
	case "1":
		return []operand.Op{operand.U8(1)}
	case "3":
		return []operand.Op{operand.U8(3)}
	case "IMM2U":
		return []operand.Op{operand.U8(r.Intn(4))}
	case "IMM8":
		return []operand.Op{operand.U8(5 + r.Intn(200)), operand.I8(int8(r.Intn(100) - 50))}
	case "IMM16":
		return []operand.Op{operand.U16(300 + r.Intn(1000)), operand.I16(-300)}
	case "IMM32":
		return []operand.Op{operand.U32(70000 + r.Intn(1000)), operand.I32(-70000)}
	case "IMM64":
		return []operand.Op{operand.U64(1 << 40), operand.I64(-(1 << 40))}
	case "AL":
		return []operand.Op{reg.AL}
	case "CL":
		return []operand.Op{reg.CL}
	case "AX":
		return []operand.Op{reg.AX}
	case "EAX":
		return []operand.Op{reg.EAX}
	case "RAX":
		return []operand.Op{reg.RAX}
	case "XMM0":
		return []operand.Op{reg.X0}
	case "R8":
		return []operand.Op{Pick(r, []reg.Register{reg.BL, reg.R9B, reg.DH, reg.SIB}), coll.GP8L()}
	case "R16":
		return []operand.Op{Pick(r, []reg.Register{reg.CX, reg.R10W, reg.BP}), coll.GP16()}
	case "R32":
		return []operand.Op{Pick(r, []reg.Register{reg.EDX, reg.R11L, reg.ESI}), coll.GP32()}
	case "R64":
		return []operand.Op{Pick(r, []reg.Register{reg.RBX, reg.R12, reg.RDI}), coll.GP64()}
	case "XMM":
		return []operand.Op{Pick(r, []reg.Register{reg.X3, reg.X15, reg.X20}), coll.XMM()}
	case "YMM":
		return []operand.Op{Pick(r, []reg.Register{reg.Y5, reg.Y31}), coll.YMM()}
	case "ZMM":
		return []operand.Op{Pick(r, []reg.Register{reg.Z7, reg.Z16}), coll.ZMM()}
	case "K":
		return []operand.Op{Pick(r, []reg.Register{reg.K1, reg.K7, reg.K0}), coll.K()}
	case "M", "M8", "M16", "M32", "M64", "M128", "M256", "M512":
		return []operand.Op{mem()}
	case "VM32X", "VM64X":
		return []operand.Op{operand.Mem{Base: reg.R8, Index: reg.X2, Scale: 4}}
	case "VM32Y", "VM64Y":
		return []operand.Op{operand.Mem{Base: reg.RAX, Index: reg.Y9, Scale: 8}}
	case "VM32Z", "VM64Z":
		return []operand.Op{operand.Mem{Base: reg.RDX, Index: reg.Z30, Scale: 1, Disp: 64}}
	case "REL8":
		return []operand.Op{operand.Rel(int32(r.Intn(200) - 100))}
	case "REL32":
		return []operand.Op{operand.LabelRef("lbl"), operand.Rel(100000)}
	}
	return nil
}

var allTypeNames = []string{"1", "3", "AL", "AX", "CL", "EAX", "IMM16", "IMM2U", "IMM32", "IMM64", "IMM8", "K", "M", "M128", "M16", "M256", "M32", "M512", "M64", "M8",
	"R16", "R32", "R64", "R8", "RAX", "REL32", "REL8", "VM32X", "VM32Y", "VM32Z", "VM64X", "VM64Y", "VM64Z", "XMM", "XMM0", "YMM", "ZMM"}

func cOptInstr(i *ir.Instruction) string {
	if i == nil {
		return "None"
	}
	return "(Some " + cInstr(i) + ")"
}

func instrSig(i *ir.Instruction) string {
	if i == nil {
		return "<nil>"
	}
	return cInstr(i)
}

const formsHeader = `From Avo Require Import Base.Prelude Base.Str.
From stdpp Require Import gmap.
From Avo Require Import Base.MaskSet Model.IR Model.RegFile Model.Forms Model.Ctors Model.IsaImplicit.
From AvoGen Require Import Tab.
Open Scope N_scope.
Notation R := Build_reg.
Notation I := Build_instr.
Notation FO := Build_foperand.
Notation F := Build_form.
`

type formsDump struct {
	Forms      []x86.VerifForm
	TypeNames  []string
	ImplNames  []string
	ClassNames []string
	ByOpc      map[int][]int
	OpcName    map[int]string
}

func dumpForms(repo string) *formsDump {
	fset := token.NewFileSet()
	f, err := parser.ParseFile(fset, filepath.Join(repo, "x86", "zoptab.go"), nil, 0)
	if err != nil {
		die(err)
	}
	d := &formsDump{Forms: x86.VerifForms(), TypeNames: constNames(f, "oprndtype"), ImplNames: constNames(f, "implreg"), ClassNames: constNames(f, "sffxscls"),
		ByOpc: map[int][]int{}, OpcName: map[int]string{}}
	for i, fm := range d.Forms {
		d.ByOpc[fm.OpcIndex] = append(d.ByOpc[fm.OpcIndex], i)
		d.OpcName[fm.OpcIndex] = fm.Opcode
	}
	return d
}

func (d *formsDump) typeName(o x86.VerifOperand) string {
	if o.Implicit {
		if int(o.Type) < len(d.ImplNames) {
			return d.ImplNames[o.Type]
		}
		return "?"
	}
	if int(o.Type) < len(d.TypeNames) {
		return d.TypeNames[o.Type]
	}
	return "?"
}

func (d *formsDump) formCoq(fm x86.VerifForm) string {
	var ops []string
	for _, o := range fm.Operands {
		ir := "None"
		if o.ImplReg != nil {
			ir = "(Some " + cReg(o.ImplReg) + ")"
		}
		ops = append(ops, fmt.Sprintf("(FO %s %s %d %s)", cStr(d.typeName(o)), cBool(o.Implicit), o.Action, ir))
	}
	cls := "?"
	if int(fm.SuffixClass) < len(d.ClassNames) {
		cls = d.ClassNames[fm.SuffixClass]
	}
	return fmt.Sprintf("(F %s %s %d %s %d %s)", cStr(fm.Opcode), cStr(cls), fm.Features, cStrs(fm.ISA), fm.Arity, cList(ops))
}

func (d *formsDump) suffixSetsCoq() string {
	ss := x86.VerifSuffixSets()
	var rows []string
	var keys []int
	for k := range ss {
		keys = append(keys, int(k))
	}
	sort.Ints(keys)
	for _, k := range keys {
		var sets []string
		var strs []string
		for _, s := range ss[uint8(k)] {
			strs = append(strs, strings.Join(s, "."))
		}
		sort.Strings(strs)
		for _, s := range strs {
			if s == "" {
				sets = append(sets, "[]")
			} else {
				sets = append(sets, cStrs(strings.Split(s, ".")))
			}
		}
		rows = append(rows, cPair(cStr(d.ClassNames[k]), cList(sets)))
	}
	return "Definition suffix_sets_tab : suffix_sets := " + cList(rows) + ".\n"
}

func formsTab(c *Ctx, d *formsDump) string {
	return commonTab(c) + "From Avo Require Import Model.Forms.\n" + d.suffixSetsCoq()
}

type buildRec struct {
	name string
	opc  int
	suff []string
	ops  []operand.Op
	sig  string
}

func c06(c *Ctx) {
	var history, rejected []buildRec
	naliased := 0
	defer refilledSliceCheck(c)
	nreplayed := 0
	o := c.Out
	d := dumpForms(c.Repo)
	o.WriteFile("Tab.v", formsTab(c, d))
	o.Stage("Tab.v")
	o.Oblig("Tab.info_constants_ok")
	ctors := readCtors(c.Repo)
	ctxm, glob := readBuildLayers(c.Repo)
	rng := NewRNG(c.Seed + 600)

	// opc.Forms() returns exactly the rows of that opcode, in table order
	for opc := 1; opc <= x86.VerifNumOpcodes(); opc++ {
		got := x86.VerifOpcForms(opc)
		if !reflect.DeepEqual(got, d.ByOpc[opc]) {
			o.Plan.GoViolations = append(o.Plan.GoViolations, GoViolation{Key: "forms:opcformstable:" + d.OpcName[opc], Desc: fmt.Sprintf("opc %d (%s): Forms() returns rows %v but the rows carrying that opcode are %v", opc, d.OpcName[opc], got, d.ByOpc[opc])})
		}
	}

	var names []string
	for n := range ctors {
		names = append(names, n)
	}
	sort.Strings(names)
	opcIndexOf := map[string]int{}
	for k, v := range d.OpcName {
		opcIndexOf[v] = k
	}
	nshard := 16
	perShard := (len(names) + nshard - 1) / nshard
	var files []string
	ncases, nneg, nforms := 0, 0, 0
	ctxVal := func() (*build.Context, reflect.Value) {
		ctx := build.NewContext()
		ctx.Function("f")
		return ctx, reflect.ValueOf(ctx)
	}
	for s := 0; s < nshard; s++ {
		lo, hi := s*perShard, (s+1)*perShard
		if hi > len(names) {
			hi = len(names)
		}
		if lo >= hi {
			break
		}
		var tabRows, ctorRows, caseRows []string
		seenOpc := map[int]bool{}
		base := len(o.Plan.Cases)
		for _, name := range names[lo:hi] {
			ci := ctors[name]
			opc := opcIndexOf[ci.Opcode]
			if !seenOpc[opc] {
				seenOpc[opc] = true
				var fr []string
				for _, fi := range d.ByOpc[opc] {
					fr = append(fr, d.formCoq(d.Forms[fi]))
				}
				tabRows = append(tabRows, fmt.Sprintf("(%d, %s)", opc, cList(fr)))
			}
			layer := func(m map[string]*ctorInfo) string {
				x := m[name]
				if x == nil {
					return "None"
				}
				var docs []string
				for _, df := range x.Doc {
					docs = append(docs, cStrs(df))
				}
				return fmt.Sprintf("(Some (%s, %s, %s, %s))", cStrs(x.Params), cStr(x.Callee), cStrs(x.Args), cList(docs))
			}
			var docs []string
			for _, df := range ci.Doc {
				docs = append(docs, cStrs(df))
			}
			ctorRows = append(ctorRows, fmt.Sprintf("(%s, %d, %s, %s, (%s, %s, %s, %s), %s, %s)", cStr(name), opc, cStr(ci.Opcode), cStrs(ci.Suffixes),
				cStrs(ci.Params), cStr(ci.Callee), cStrs(ci.Args), cList(docs), layer(ctxm), layer(glob)))

			// dynamic: one matching sample per documented form + mutated tuples
			coll := reg.NewCollection()
			try := func(ops []operand.Op, kind string) {
				i1, err1, ok := x86.VerifBuild(opc, ci.Suffixes, ops)
				if !ok {
					o.Plan.GoViolations = append(o.Plan.GoViolations, GoViolation{Key: "ctor:suffixes:" + name, Desc: "constructor " + name + " passes a suffix list unknown to the table"})
					return
				}
				var obs *ir.Instruction
				if err1 == nil {
					obs = i1
				}
				// layer 2 through reflection on *build.Context
				ctx, cv := ctxVal()
				m := cv.MethodByName(name)
				if m.IsValid() && (m.Type().NumIn() == len(ops) || m.Type().IsVariadic()) {
					args := make([]reflect.Value, len(ops))
					for k := range ops {
						args[k] = reflect.ValueOf(&ops[k]).Elem()
					}
					m.Call(args)
					f, cerr := ctx.Result()
					is := f.Functions()[0].Instructions()
					var got *ir.Instruction
					if len(is) == 1 {
						got = is[0]
					}
					if (cerr == nil) != (err1 == nil) || len(is) > 1 || instrSig(got) != instrSig(obs) || (cerr != nil && len(is) != 0) {
						o.Plan.GoViolations = append(o.Plan.GoViolations, GoViolation{Key: "ctor:layers-disagree:" + name, Desc: fmt.Sprintf("%s%v: x86 constructor gives (%s, err=%v) but the Context method appends %d instruction(s) %s with error %v", name, opsText(ops), instrSig(obs), err1, len(is), instrSig(got), cerr), Replay: map[string]any{"ctor": name, "operands": opsText(ops)}})
					}
				} else if m.IsValid() && len(ci.Params) == len(ops) && !strings.HasSuffix(ci.Params[0], "...") {
					o.Plan.GoViolations = append(o.Plan.GoViolations, GoViolation{Key: "ctor:arity:" + name, Desc: "Context method " + name + " has a different number of parameters than the x86 constructor"})
				}
				// the built instruction holds the operands it was given, not the caller's slice: a generator that
				// refills one argument slice for the next call must not change the instruction already built
				if obs != nil && len(ops) > 0 && naliased < 5 {
					before := instrSig(obs)
					saved := ops[0]
					ops[0] = operand.LabelRef("refilled")
					if after := instrSig(obs); after != before {
						naliased++
						o.Plan.GoViolations = append(o.Plan.GoViolations, GoViolation{Key: "ctor:aliases-caller-slice", Desc: fmt.Sprintf("%s built from the argument slice %v changes to %s when the caller stores another operand into that slice afterwards", name, opsText(append([]operand.Op{saved}, ops[1:]...)), after), Replay: map[string]any{"ctor": name}})
					}
					ops[0] = saved
				}
				history = append(history, buildRec{name, opc, ci.Suffixes, ops, instrSig(obs)})
				if obs == nil && len(rejected) < 60 {
					rejected = append(rejected, buildRec{name, opc, ci.Suffixes, ops, ""})
				}
				caseRows = append(caseRows, fmt.Sprintf("(%d, %s, %s, %s)", opc, cStrs(ci.Suffixes), cOperands(ops), cOptInstr(obs)))
				o.AddCase(Case{Key: "ctor:" + kind + ":" + name, Desc: fmt.Sprintf("%s%v -> %s", name, opsText(ops), map[bool]string{true: "accepted", false: "rejected"}[obs != nil]), Input: map[string]any{"ctor": name, "operands": opsText(ops)}, Nontrivial: true})
				ncases++
			}
			for _, df := range ci.Doc {
				if len(df) == 0 {
					continue
				}
				nforms++
				var ops []operand.Op
				bad := false
				for _, tn := range df[1:] {
					ss := samplesFor(strings.ToUpper(tn), rng, coll)
					if len(ss) == 0 {
						bad = true
						break
					}
					ops = append(ops, Pick(rng, ss))
				}
				if bad {
					o.Plan.GoViolations = append(o.Plan.GoViolations, GoViolation{Key: "ctor:doc-type:" + name, Desc: fmt.Sprintf("documentation of %s names an unknown operand type in %v", name, df)})
					continue
				}
				try(ops, "match")
				// mutations: mostly non-matching
				if len(ops) > 0 && rng.Chance(60) {
					mut := append([]operand.Op(nil), ops...)
					switch rng.Intn(4) {
					case 0:
						mut = mut[:len(mut)-1]
					case 1:
						mut = append(mut, Pick(rng, samplesFor("R64", rng, coll)))
					case 2:
						k := rng.Intn(len(mut))
						mut[k] = Pick(rng, samplesFor(Pick(rng, allTypeNames), rng, coll))
					default:
						if len(mut) > 1 {
							a, b := rng.Intn(len(mut)), rng.Intn(len(mut))
							mut[a], mut[b] = mut[b], mut[a]
						}
					}
					nneg++
					try(mut, "mutated")
				}
			}
		}
		// the same calls again, each now separated from its first occurrence by every other call of the
		// shard: what a constructor builds depends on its arguments, not on what was built before
		nrep := 0
		for _, h := range history {
			got := func() (sig string) {
				defer func() {
					if r := recover(); r != nil {
						sig = fmt.Sprint("panic: ", r)
					}
				}()
				i2, err2, _ := x86.VerifBuild(h.opc, h.suff, h.ops)
				if err2 != nil {
					i2 = nil
				}
				return instrSig(i2)
			}()
			if got != h.sig && nrep < 5 {
				nrep++
				o.Plan.GoViolations = append(o.Plan.GoViolations, GoViolation{Key: "ctor:history-dependent:" + h.name, Desc: fmt.Sprintf("%s%v built %s when first called, and %s when called again after %d other constructor calls", h.name, opsText(h.ops), h.sig, got, len(history)-1), Replay: map[string]any{"ctor": h.name, "operands": opsText(h.ops), "calls_between": len(history) - 1}})
			}
		}
		nreplayed += len(history)
		history = history[:0]
		// the refused requests of the shard once more, all through one Context (and, as it happens, from one line
		// of this harness): each of them is reported, none adds an instruction
		{
			ctx, cv := ctxVal()
			n := 0
			for _, h := range rejected {
				m := cv.MethodByName(h.name)
				if !m.IsValid() || !(m.Type().NumIn() == len(h.ops) || m.Type().IsVariadic()) {
					continue
				}
				args := make([]reflect.Value, len(h.ops))
				for k := range h.ops {
					args[k] = reflect.ValueOf(&h.ops[k]).Elem()
				}
				m.Call(args)
				n++
			}
			f, err := ctx.Result()
			var el build.ErrorList
			errors.As(err, &el)
			if n > 0 && (len(el) != n || len(f.Functions()[0].Instructions()) != 0) {
				o.Plan.GoViolations = append(o.Plan.GoViolations, GoViolation{Key: "ctor:refusals-in-one-context", Desc: fmt.Sprintf("%d requests that are each refused on their own were made through one Context (first: %s%v): %d errors are reported and %d instructions were added", n, rejected[0].name, opsText(rejected[0].ops), len(el), len(f.Functions()[0].Instructions())), Replay: map[string]any{"requests": n, "first": rejected[0].name}})
			}
			rejected = rejected[:0]
		}
		fname := fmt.Sprintf("Cases%02d.v", s)
		var b strings.Builder
		b.WriteString(formsHeader)
		fmt.Fprintf(&b, "Definition optab : list (N * list form) := %s.\n", cListNL(tabRows))
		fmt.Fprintf(&b, "Definition ctors : list ctor_row := %s.\n", cListNL(ctorRows))
		fmt.Fprintf(&b, "Definition cases : list build_case := %s.\n", cListNL(caseRows))
		fmt.Fprintf(&b, "Definition R_mismatch := Eval vm_compute in List.map (N.add %d) (idx_where (fun c => negb (build_agree regs suffix_sets_tab optab c)) cases).\nPrint R_mismatch.\n", base)
		fmt.Fprintf(&b, "Definition R_violation := Eval vm_compute in List.map (N.add %d) (idx_where (fun c => negb (build_impl_ok regs suffix_sets_tab optab c)) cases).\nPrint R_violation.\n", base)
		fmt.Fprintf(&b, "Definition R_bad_ctors := Eval vm_compute in List.map (N.add %d) (bad_ctor_rows suffix_sets_tab optab ctors).\nPrint R_bad_ctors.\n", 1000000+lo)
		fmt.Fprintf(&b, "Definition R_bad_forms := Eval vm_compute in List.map (N.add 2000000) (bad_form_rows suffix_sets_tab optab).\nPrint R_bad_forms.\n")
		b.WriteString("Lemma forms_wf : forallb (fun e => forallb (form_wf suffix_sets_tab) (snd e)) optab = true.\nProof. vm_compute. reflexivity. Qed.\nPrint Assumptions forms_wf.\n")
		b.WriteString("Lemma ctors_ok : forallb (ctor_ok suffix_sets_tab optab) ctors = true.\nProof. vm_compute. reflexivity. Qed.\nPrint Assumptions ctors_ok.\n")
		o.WriteFile(fname, b.String())
		files = append(files, fname)
		o.ExpectEmpty(fname, "R_mismatch", "mismatch", "model of x86 build/match over the translated form table vs the real constructor (accept/reject, opcode, suffixes, operands, inputs, outputs, flags, ISA)")
		o.ExpectEmpty(fname, "R_violation", "violation", "an operand list is accepted although no documented form matches it (or rejected although one does), or the built instruction is not that form's (operands, reads/writes, flags, ISA)")
		o.ExpectEmpty(fname, "R_bad_forms", "violation", "a form row is not well-formed (explicit operands first, arity, implicit registers, known types/classes): opcode index")
		o.ExpectEmpty(fname, "R_bad_ctors", "violation", "an entry point does not forward its parameters in order to the same-named constructor/forms, or its documented forms differ from the table's forms (index into the sorted constructor list of this shard)")
		o.Oblig(strings.TrimSuffix(fname, ".v")+".forms_wf", strings.TrimSuffix(fname, ".v")+".ctors_ok")
	}
	files = append(files, predicateMatrix(c, d))
	o.Stage(files...)

	// the shipped tables are what the in-tree generators produce from the in-tree database
	regen := regenerate(c)
	for _, r := range regen {
		if !r.Same {
			o.Plan.GoViolations = append(o.Plan.GoViolations, GoViolation{Key: "regen:" + r.File, Desc: fmt.Sprintf("%s is not what `avogen %s` produces from the in-tree database (first difference at line %d: %q vs %q)", r.File, r.Gen, r.Line, r.A, r.B), Replay: map[string]any{"file": r.File}})
		}
	}
	o.Plan.Rule = "every constructor name of x86/zctors.go (go/ast) x its three layers; per documented form one matching operand tuple drawn from per-type samples (physical, REX-only, high-byte, virtual registers; memory with base/index/FP symbol; VSIB; immediates of each width and sign; relative and label targets) plus mutated tuples (dropped, extra, retyped, swapped operand); executed through the unexported build (verif overlay) and through the Context method (reflection) and compared with the Coq model; non-trivial = all; distinct by (constructor, operands)"
	o.Plan.Stats["constructors"] = len(names)
	o.Plan.Stats["forms_in_table"] = len(d.Forms)
	o.Plan.Stats["documented_forms_sampled"] = nforms
	o.Plan.Stats["mutated_tuples"] = nneg
	o.Plan.Stats["calls_repeated_after_a_whole_shard_of_other_calls"] = nreplayed
	o.Plan.Stats["regenerated_files_identical"] = regen
}

func opsText(ops []operand.Op) string {
	var ss []string
	for _, op := range ops {
		ss = append(ss, op.Asm())
	}
	return "(" + strings.Join(ss, ", ") + ")"
}

type regenResult struct {
	File, Gen string
	Same      bool
	Line      int
	A, B      string
}

// regenerate runs the in-tree avogen and compares with the checked-in files (modulo the header line)
func regenerate(c *Ctx) []regenResult {
	bin := filepath.Join(c.Tmp, "avogen")
	cmd := exec.Command("go", "build", "-o", bin, "./internal/cmd/avogen")
	cmd.Dir = c.Repo
	if out, err := cmd.CombinedOutput(); err != nil {
		die(fmt.Errorf("build avogen: %v %s", err, out))
	}
	jobs := []struct {
		file, gen string
		args      []string
	}{
		{"internal/inst/ztable.go", "godata", []string{"-bootstrap", "-data", filepath.Join(c.Repo, "internal", "data")}},
		{"x86/zoptab.go", "optab", nil}, {"x86/zctors.go", "ctors", nil}, {"x86/zctors_test.go", "ctorstest", nil},
		{"build/zinstructions.go", "build", nil}, {"build/zinstructions_test.go", "buildtest", nil}, {"build/zmov.go", "mov", nil},
	}
	var res []regenResult
	for _, j := range jobs {
		args := append(append([]string{}, j.args...), j.gen)
		cmd := exec.Command(bin, args...)
		cmd.Dir = c.Tmp
		var stderr bytes.Buffer
		cmd.Stderr = &stderr
		out, err := cmd.Output()
		if err != nil {
			res = append(res, regenResult{File: j.file, Gen: j.gen, Same: false, A: "generator failed: " + stderr.String()})
			continue
		}
		want, _ := os.ReadFile(filepath.Join(c.Repo, j.file))
		a := strings.Split(string(out), "\n")
		b := strings.Split(string(want), "\n")
		r := regenResult{File: j.file, Gen: j.gen, Same: true}
		for k := 1; k < len(a) || k < len(b); k++ { // line 0 is the "Code generated by command" header
			var x, y string
			if k < len(a) {
				x = a[k]
			}
			if k < len(b) {
				y = b[k]
			}
			if x != y {
				r.Same, r.Line, r.A, r.B = false, k+1, x, y
				break
			}
		}
		res = append(res, r)
	}
	return res
}

// predicateMatrix: every operand-type predicate of the form table (oprndtype.Match, i.e. operand.IsXXX)
// against a fixed universe of operand values: every physical register view, virtual registers of every
// kind and width (incl. high byte), integer constants of every width and signedness, float and string
// constants, memory operands of every shape (GP / pseudo / no base, GP and vector index), relative
// offsets and label references.  The meaning of a type name is Model/Forms.v type_match.
func predicateMatrix(c *Ctx, d *formsDump) string { return predicateMatrixFor(c, d, nil, "Matrix.v") }

// predicateMatrixFor restricts the matrix to the given type names (nil = all) and writes it to file
func predicateMatrixFor(c *Ctx, d *formsDump, only map[string]bool, file string) string {
	o := c.Out
	var univ []operand.Op
	for _, e := range theRegs {
		univ = append(univ, e.R)
	}
	coll := reg.NewCollection()
	g := coll.GP64()
	univ = append(univ, g, g.As32(), g.As16(), g.As8(), g.As8L(), g.As8H(), coll.GP32(), coll.GP16(), coll.GP8(), coll.GP8L(), coll.GP8H(),
		coll.XMM(), coll.YMM(), coll.ZMM(), coll.K())
	{
		var ks []int
		for k := range wrapped1 {
			ks = append(ks, k)
		}
		sort.Ints(ks)
		for _, k := range ks {
			univ = append(univ, wrapped1[k])
		}
	}
	for _, v := range []uint64{0, 1, 2, 3, 4, 5, 127, 128, 255} {
		univ = append(univ, operand.U8(v), operand.I8(int8(v)))
	}
	univ = append(univ, operand.U16(1), operand.I16(-3), operand.U32(3), operand.I32(-1), operand.U64(1), operand.I64(-1), operand.U16(65535), operand.U32(1<<31), operand.U64(1<<63),
		operand.F32(1.5), operand.F64(3), operand.F64(1), operand.String("A"), operand.String("ab"), operand.String("abc"), operand.String("abcd"), operand.String("8 bytes!"), operand.String(""))
	univ = append(univ,
		operand.Mem{Base: reg.RAX}, operand.Mem{Base: reg.R13, Index: reg.RCX, Scale: 8, Disp: 16}, operand.Mem{Base: reg.EAX}, operand.Mem{Index: reg.RCX, Scale: 4},
		operand.Mem{}, operand.Mem{Base: coll.GP64(), Index: coll.GP64(), Scale: 1},
		paramMem("x", 8), stackMem(16), idxMem(stackMem(8), reg.RCX, 8), idxMem(paramMem("x", 0), coll.GP64(), 4),
		dataMem(operand.NewStaticSymbol("tbl"), 0), idxMem(dataMem(operand.NewStaticSymbol("tbl"), 8), reg.RDX, 8),
		operand.Mem{Base: reg.R8, Index: reg.X2, Scale: 4}, operand.Mem{Base: reg.RAX, Index: reg.Y9, Scale: 8}, operand.Mem{Base: reg.RDX, Index: reg.Z30, Scale: 1, Disp: 64},
		operand.Mem{Base: reg.R8, Index: coll.XMM(), Scale: 4}, operand.Mem{Index: reg.X20, Scale: 2}, operand.Mem{Base: reg.X1, Index: reg.X2, Scale: 1},
		operand.Rel(0), operand.Rel(127), operand.Rel(-128), operand.Rel(128), operand.Rel(-129), operand.Rel(1<<20), operand.LabelRef("lbl"))
	var types []string
	var tidx []int
	for k, tn := range d.TypeNames {
		if tn == "None" || tn == "max" || tn == "" || (only != nil && !only[tn]) {
			continue
		}
		types = append(types, tn)
		tidx = append(tidx, k)
	}
	base := len(o.Plan.Cases)
	var rows []string
	for _, op := range univ {
		var bs []string
		for _, k := range tidx {
			bs = append(bs, cBool(x86.VerifTypeMatch(uint8(k), op)))
		}
		rows = append(rows, "("+cOperand(op)+", "+cList(bs)+")")
		o.AddCase(Case{Key: "predicate:" + op.Asm(), Desc: "operand " + op.Asm() + fmt.Sprintf(" (%T) against every operand type", op), Input: map[string]any{"operand": op.Asm(), "go_type": fmt.Sprintf("%T", op)}, Nontrivial: true})
	}
	var b strings.Builder
	b.WriteString(formsHeader)
	fmt.Fprintf(&b, "Definition ptypes : list string := %s.\n", cStrs(types))
	fmt.Fprintf(&b, "Definition prows : list (operand * list bool) := %s.\n", cListNL(rows))
	fmt.Fprintf(&b, "Definition R_predicate_violation := Eval vm_compute in List.map (N.add %d) (idx_where (fun r : operand * list bool => negb (list_eqb Bool.eqb (List.map (fun t => type_match regs t (fst r)) ptypes) (snd r))) prows).\nPrint R_predicate_violation.\n", base)
	o.WriteFile(file, b.String())
	o.ExpectEmpty(file, "R_predicate_violation", "violation", "an operand-type predicate (operand.IsXXX via oprndtype.Match) accepts or rejects this operand contrary to the meaning of the type name (Model/Forms.v type_match): e.g. a float constant as imm32, CH as cl, a 32-bit base register as memory")
	o.Plan.Stats["predicate_matrix"] = fmt.Sprintf("%d operands x %d types", len(univ), len(types))
	return file
}

// refilledSliceCheck: the same through the public API and the whole pipeline: one argument slice refilled
// between three calls of a variadic constructor; the printed function must show the three operand lists.
func refilledSliceCheck(c *Ctx) {
	o := c.Out
	ctx := build.NewContext()
	ctx.Function("f")
	ctx.SignatureExpr("func()")
	ops := []operand.Op{reg.X1, reg.X2, reg.X3}
	for _, r := range []reg.Register{reg.X1, reg.X7, reg.X9} {
		ops[0] = r
		ctx.VPADDD(ops...)
	}
	ctx.RET()
	idx := o.AddCase(Case{Key: "ctor:refilled-slice", Desc: "VPADDD(ops...) three times with ops[0] = X1, X7, X9 stored into one slice", Input: map[string]any{"ctor": "VPADDD", "first_operands": []string{"X1", "X7", "X9"}}, Nontrivial: true})
	f, err := ctx.Result()
	if err == nil {
		err = pass.Compile.Execute(f)
	}
	var got []string
	if err == nil {
		out, _ := printer.NewGoAsm(printer.Config{Name: "avo", Pkg: "p"}).Print(f)
		for _, ln := range strings.Split(string(out), "\n") {
			if strings.HasPrefix(ln, "\tVPADDD") {
				got = append(got, strings.Join(strings.Fields(ln), " "))
			}
		}
	}
	want := []string{"VPADDD X1, X2, X3", "VPADDD X7, X2, X3", "VPADDD X9, X2, X3"}
	if err != nil || strings.Join(got, "; ") != strings.Join(want, "; ") {
		o.Plan.GoViolations = append(o.Plan.GoViolations, GoViolation{Key: "ctor:aliases-caller-slice", Desc: fmt.Sprintf("case %d: three VPADDD calls given X1/X7/X9 through one refilled argument slice print as %q (error %v)", idx, got, err), Replay: map[string]any{"ctor": "VPADDD", "printed": got}})
	}
}
