package main

// Shared by C01 C02 C03 C09 C10 C15 C17: program generator, IR -> Coq emitter, staged runner of the
// real passes with per-stage observables.

import (
	"fmt"
	"sort"
	"strings"

	"github.com/mmcloughlin/avo/attr"
	"github.com/mmcloughlin/avo/ir"
	"github.com/mmcloughlin/avo/operand"
	"github.com/mmcloughlin/avo/pass"
	"github.com/mmcloughlin/avo/reg"
	"github.com/mmcloughlin/avo/x86"
)

// ---------------------------------------------------------------- register table

type PReg struct {
	Family, ID, Kind, Idx, Mask, Size, Info uint64
	Name                                    string
	Tag                                     uint64
	R                                       reg.Physical
}

func regTable() []PReg {
	var t []PReg
	for _, f := range reg.Families {
		for _, r := range f.Registers() {
			t = append(t, PReg{uint64(f.Kind), uint64(r.ID()), uint64(r.Kind()), uint64(r.PhysicalIndex()), uint64(r.Mask()), uint64(r.Size()), uint64(r.Info()), r.Asm(), uint64(16 + len(t)), r})
		}
	}
	return t
}

var theRegs = regTable()

func regTableCoq() string {
	var rows []string
	for _, p := range theRegs {
		rows = append(rows, fmt.Sprintf("{| p_family := %d; p_id := %d; p_kind := %d; p_idx := %d; p_mask := %d; p_size := %d; p_info := %d; p_name := %s; p_tag := %d |}",
			p.Family, p.ID, p.Kind, p.Idx, p.Mask, p.Size, p.Info, cStr(p.Name), p.Tag))
	}
	return "Definition regs : regfile := " + cListNL(rows) + ".\n" +
		fmt.Sprintf("Definition info_restricted : N := %d.\nDefinition info_basepointer : N := %d.\n", uint64(reg.Restricted), uint64(reg.BasePointer))
}

// depth-1 wrapped values: what As8L/.../AsZ return for physical registers (a fresh wrapper
// around the family's entry, which Go's == distinguishes from the entry itself)
var wrapped1 = func() map[int]reg.Register {
	m := map[int]reg.Register{}
	find := func(id reg.ID, mask uint16) int {
		for j, e := range theRegs {
			if e.ID == uint64(id) && e.Mask == uint64(mask) {
				return j
			}
		}
		return -1
	}
	for _, e := range theRegs {
		var vs []reg.Register
		switch x := e.R.(type) {
		case reg.GPPhysical:
			vs = append(vs, x.As8L(), x.As16(), x.As32(), x.As64())
			if e.Idx < 4 {
				vs = append(vs, x.As8H())
			}
		case reg.VecPhysical:
			vs = append(vs, x.AsX(), x.AsY(), x.AsZ())
		}
		for _, v := range vs {
			if j := find(v.ID(), v.Mask()); j >= 0 {
				m[j] = v
			}
		}
	}
	return m
}()

func regTag(r reg.Register) uint64 {
	if reg.ToPhysical(r) != nil {
		for _, e := range theRegs {
			if e.R == r { // Go interface equality: the very value registered in the family
				return e.Tag
			}
		}
		for j, v := range wrapped1 {
			if v == r {
				return 1000 + theRegs[j].Tag
			}
		}
		return 999
	}
	switch fmt.Sprintf("%T", r) {
	case "reg.virtual":
		return 0
	case "reg.gpv":
		return 1
	case "reg.vecv":
		return 2
	case "reg.opmaskv":
		return 3
	}
	return 9
}

func cReg(r reg.Register) string {
	return fmt.Sprintf("(R %d %d %d)", uint64(r.ID()), uint64(r.Mask()), regTag(r))
}
func cOptReg(r reg.Register) string {
	if r == nil {
		return "None"
	}
	return "(Some " + cReg(r) + ")"
}

func cOperand(op operand.Op) string {
	switch o := op.(type) {
	case reg.Register:
		return "(OReg " + cReg(o) + ")"
	case operand.Mem:
		return fmt.Sprintf("(OMem %s %s %d %s %s %s)", cOptReg(o.Base), cOptReg(o.Index), o.Scale, cZ(int64(o.Disp)), cStr(o.Symbol.Name), cBool(o.Symbol.Static))
	case operand.U8:
		return fmt.Sprintf("(OImm 1 false %d)", uint64(o))
	case operand.U16:
		return fmt.Sprintf("(OImm 2 false %d)", uint64(o))
	case operand.U32:
		return fmt.Sprintf("(OImm 4 false %d)", uint64(o))
	case operand.U64:
		return fmt.Sprintf("(OImm 8 false %d)", uint64(o))
	case operand.I8:
		return fmt.Sprintf("(OImm 1 true %s)", cZ(int64(o)))
	case operand.I16:
		return fmt.Sprintf("(OImm 2 true %s)", cZ(int64(o)))
	case operand.I32:
		return fmt.Sprintf("(OImm 4 true %s)", cZ(int64(o)))
	case operand.I64:
		return fmt.Sprintf("(OImm 8 true %s)", cZ(int64(o)))
	case operand.Rel:
		return fmt.Sprintf("(ORel %s)", cZ(int64(o)))
	case operand.LabelRef:
		return "(OLabel " + cStr(string(o)) + ")"
	case operand.Constant:
		return "(OOther " + cStr(o.Asm()) + ")"
	}
	return "(OOther " + cStr(op.Asm()) + ")"
}

func cOperands(ops []operand.Op) string {
	ss := make([]string, len(ops))
	for i, o := range ops {
		ss[i] = cOperand(o)
	}
	return cList(ss)
}
func cStrs(xs []string) string {
	ss := make([]string, len(xs))
	for i, x := range xs {
		ss[i] = cStr(x)
	}
	return cList(ss)
}

func cInstr(i *ir.Instruction) string {
	return fmt.Sprintf("(I %s %s %s %s %s %s %s %s %s %s)", cStr(i.Opcode), cStrs(i.Suffixes), cOperands(i.Operands), cOperands(i.Inputs), cOperands(i.Outputs),
		cBool(i.IsTerminal), cBool(i.IsBranch), cBool(i.IsConditional), cBool(i.CancellingInputs), cStrs(i.ISA))
}

func cNodes(ns []ir.Node) string {
	var ss []string
	for _, n := range ns {
		switch x := n.(type) {
		case ir.Label:
			ss = append(ss, "NLabel "+cStr(string(x)))
		case *ir.Comment:
			ss = append(ss, "NComment "+cStrs(x.Lines))
		case *ir.Instruction:
			ss = append(ss, "NInstr "+cInstr(x))
		}
	}
	return cList(ss)
}

const progHeader = `From Avo Require Import Base.Prelude.
From stdpp Require Import gmap.
From Avo Require Import Base.MaskSet Model.IR Model.RegFile Model.CFG Model.Liveness Model.Alloc Model.Cleanup Model.Pipeline Model.Obs.
From AvoGen Require Import Tab.
Open Scope N_scope.
Notation R := Build_reg.
Notation I := Build_instr.
`

// ---------------------------------------------------------------- program generator

type Prog struct {
	Nodes []ir.Node
	Attrs attr.Attribute
	Local int
	Desc  string
	Tags  map[string]bool // features used, for the distribution report
}

func cloneInstr(i *ir.Instruction) *ir.Instruction {
	c := *i
	c.Operands = append([]operand.Op(nil), i.Operands...)
	c.Inputs = append([]operand.Op(nil), i.Inputs...)
	c.Outputs = append([]operand.Op(nil), i.Outputs...)
	c.Suffixes = append([]string(nil), i.Suffixes...)
	c.ISA = append([]string(nil), i.ISA...)
	c.Pred, c.Succ = nil, nil
	c.LiveIn, c.LiveOut = nil, nil
	return &c
}

func (p *Prog) Function() *ir.Function {
	fn := ir.NewFunction("f")
	fn.Attributes = p.Attrs
	fn.LocalSize = p.Local
	for _, n := range p.Nodes {
		switch x := n.(type) {
		case *ir.Instruction:
			fn.AddNode(cloneInstr(x))
		case *ir.Comment:
			fn.AddNode(ir.NewComment(x.Lines...))
		default:
			fn.AddNode(n)
		}
	}
	return fn
}

type progGen struct {
	r     *RNG
	coll  *reg.Collection
	gp    []reg.GPVirtual
	vec   []reg.VecVirtual
	k     []reg.OpmaskVirtual
	tags  map[string]bool
	phys  bool // may use author-chosen physical registers
	nlbl  int
	synth bool
}

func (g *progGen) tag(s string) { g.tags[s] = true }

var gpSpecs = []reg.Spec{reg.S8L, reg.S8H, reg.S16, reg.S32, reg.S64}

func (g *progGen) gpView(v reg.GP, s reg.Spec) reg.Register {
	switch s {
	case reg.S8L:
		return v.As8L()
	case reg.S8H:
		return v.As8H()
	case reg.S16:
		return v.As16()
	case reg.S32:
		return v.As32()
	}
	return v.As64()
}

var physGP64 = []reg.GPPhysical{reg.RAX, reg.RCX, reg.RDX, reg.RBX, reg.RSI, reg.RDI, reg.R8, reg.R9, reg.R10, reg.R11, reg.R12, reg.R13, reg.R14, reg.R15, reg.RBP}

// a GP register of the given width: virtual (mostly) or author-chosen physical
func (g *progGen) GP(s reg.Spec) reg.Register {
	if g.phys && g.r.Chance(15) {
		p := Pick(g.r, physGP64)
		if s == reg.S8H {
			p = Pick(g.r, physGP64[:4])
		}
		g.tag("physical-gp")
		if p == reg.RBP {
			g.tag("explicit-bp")
		}
		return g.gpView(p, s)
	}
	if len(g.gp) == 0 {
		g.gp = append(g.gp, g.coll.GP64())
	}
	v := Pick(g.r, g.gp)
	if s == reg.S8H {
		g.tag("8H")
	}
	return g.gpView(v, s)
}
func (g *progGen) Vec(s reg.Spec) reg.Register {
	if g.phys && g.r.Chance(10) {
		g.tag("physical-vec")
		p := Pick(g.r, []reg.VecPhysical{reg.X0, reg.X1, reg.X15, reg.X16, reg.X31})
		switch s {
		case reg.S256:
			return p.AsY()
		case reg.S512:
			return p.AsZ()
		}
		return p
	}
	if len(g.vec) == 0 {
		g.vec = append(g.vec, g.coll.XMM())
	}
	v := Pick(g.r, g.vec)
	g.tag("vector")
	switch s {
	case reg.S256:
		return v.AsY()
	case reg.S512:
		return v.AsZ()
	}
	return v.AsX()
}
func (g *progGen) K() reg.Register {
	if g.phys && g.r.Chance(10) {
		return Pick(g.r, []reg.OpmaskPhysical{reg.K1, reg.K2, reg.K7})
	}
	if len(g.k) == 0 {
		g.k = append(g.k, g.coll.K())
	}
	g.tag("opmask")
	return Pick(g.r, g.k)
}
func (g *progGen) Mem() operand.Mem {
	g.tag("mem")
	m := operand.Mem{Base: g.GP(reg.S64), Disp: g.r.Intn(5) * 8}
	if g.r.Chance(40) {
		m.Index = g.GP(reg.S64)
		m.Scale = Pick(g.r, []uint8{1, 2, 4, 8})
		g.tag("mem-index")
	}
	if g.r.Chance(15) {
		return stackMem(g.r.Intn(4) * 8)
	}
	if g.r.Chance(12) { // stack / argument area indexed by a register: the index is read
		g.tag("mem-pseudo-index")
		ix := g.GP(reg.S64)
		if g.r.Bool() {
			return idxMem(stackMem(g.r.Intn(4)*8), ix, Pick(g.r, []uint8{1, 2, 4, 8}))
		}
		return idxMem(paramMem("x", g.r.Intn(2)*8), ix, Pick(g.r, []uint8{1, 8}))
	}
	return m
}

func must(i *ir.Instruction, err error) *ir.Instruction {
	if err != nil {
		return nil
	}
	return i
}

// one real instruction built with the x86 constructors
func (g *progGen) realInstr() *ir.Instruction {
	r := g.r
	var i *ir.Instruction
	switch r.Intn(34) {
	case 0:
		i = must(x86.MOVQ(g.GP(reg.S64), g.GP(reg.S64)))
	case 1:
		i = must(x86.ADDQ(g.GP(reg.S64), g.GP(reg.S64)))
	case 2:
		a := g.GP(reg.S64)
		b := a
		if r.Chance(40) {
			b = g.GP(reg.S64)
		}
		g.tag("cancelling")
		i = must(x86.XORQ(a, b))
	case 3:
		i = must(x86.MOVL(g.GP(reg.S32), g.GP(reg.S32)))
		g.tag("32bit-write")
	case 4:
		i = must(x86.MOVW(g.GP(reg.S16), g.GP(reg.S16)))
		g.tag("subreg-write")
	case 5:
		s := Pick(r, []reg.Spec{reg.S8L, reg.S8H})
		d := Pick(r, []reg.Spec{reg.S8L, reg.S8H})
		i = must(x86.MOVB(g.GP(s), g.GP(d)))
		g.tag("subreg-write")
	case 6:
		i = must(x86.MOVQ(operand.U32(r.Intn(1000)), g.GP(reg.S64)))
	case 7:
		i = must(x86.MOVQ(g.Mem(), g.GP(reg.S64)))
	case 8:
		i = must(x86.MOVQ(g.GP(reg.S64), g.Mem()))
		g.tag("mem-output")
	case 9:
		i = must(x86.MULQ(g.GP(reg.S64)))
		g.tag("implicit")
	case 10:
		i = must(x86.SHLQ(reg.CL, g.GP(reg.S64)))
		g.tag("implicit")
	case 11:
		i = must(x86.LEAQ(g.Mem(), g.GP(reg.S64)))
	case 12:
		i = must(x86.CMPQ(g.GP(reg.S64), g.GP(reg.S64)))
	case 13:
		i = must(x86.MOVBLZX(g.GP(reg.S8L), g.GP(reg.S32)))
		g.tag("32bit-write")
	case 14:
		i = must(x86.IMULQ(g.GP(reg.S64), g.GP(reg.S64)))
	case 15:
		i = must(x86.ADDL(g.GP(reg.S32), g.GP(reg.S32)))
		g.tag("32bit-write")
	case 16:
		i = must(x86.VPADDD(g.Vec(reg.S256), g.Vec(reg.S256), g.Vec(reg.S256)))
	case 17:
		a := g.Vec(reg.S128)
		b := a
		if r.Chance(40) {
			b = g.Vec(reg.S128)
		}
		g.tag("cancelling")
		i = must(x86.PXOR(a, b))
	case 18:
		i = must(x86.VMOVDQU64(g.Vec(reg.S512), g.Vec(reg.S512)))
	case 19:
		i = must(x86.VPADDD(g.Vec(reg.S512), g.Vec(reg.S512), g.K(), g.Vec(reg.S512)))
		g.tag("masked")
	case 20:
		i = must(x86.VPADDD_Z(g.Vec(reg.S512), g.Vec(reg.S512), g.K(), g.Vec(reg.S512)))
		g.tag("masked")
	case 21:
		a := g.Vec(reg.S128)
		b := a
		if r.Chance(30) {
			b = g.Vec(reg.S128)
		}
		g.tag("cancelling")
		g.tag("masked")
		i = must(x86.VPCMPEQB(a, b, g.K(), g.K()))
	case 22:
		i = must(x86.KMOVQ(g.K(), g.K()))
	case 23:
		i = must(x86.KMOVQ(g.GP(reg.S64), g.K()))
	case 24:
		i = must(x86.MOVQ(g.GP(reg.S64), g.Vec(reg.S128)))
	case 25:
		i = must(x86.MOVQ(g.Vec(reg.S128), g.Vec(reg.S128)))
	case 26:
		i = must(x86.SUBQ(g.GP(reg.S64), g.GP(reg.S64)))
		g.tag("cancelling")
	case 27:
		i = must(x86.XCHGQ(g.GP(reg.S64), g.GP(reg.S64)))
		g.tag("multi-output")
	case 28:
		i = must(x86.DIVQ(g.GP(reg.S64)))
		g.tag("implicit")
		g.tag("multi-output")
	case 29:
		i = must(x86.VPGATHERDD(g.Vec(reg.S256), operand.Mem{Base: g.GP(reg.S64), Index: g.Vec(reg.S256), Scale: 4}, g.Vec(reg.S256)))
		g.tag("vsib")
	case 30:
		i = must(x86.ADDB(g.GP(Pick(r, []reg.Spec{reg.S8L, reg.S8H})), g.GP(Pick(r, []reg.Spec{reg.S8L, reg.S8H}))))
		g.tag("subreg-write")
	case 31:
		i = must(x86.SETEQ(g.GP(reg.S8L)))
		g.tag("subreg-write")
	case 32:
		i = must(x86.XORB(g.GP(reg.S8L), g.GP(reg.S8H)))
		g.tag("cancelling")
	case 33:
		i = must(x86.VPXORQ(g.Vec(reg.S512), g.Vec(reg.S512), g.K(), g.Vec(reg.S512)))
		g.tag("cancelling")
		g.tag("masked")
	}
	return i
}

// a synthetic instruction: arbitrary registers as inputs/outputs, so the passes are not
// limited to forms the generator knows
func (g *progGen) anyReg() reg.Register {
	switch g.r.Intn(10) {
	case 0, 1:
		return g.Vec(Pick(g.r, []reg.Spec{reg.S128, reg.S256, reg.S512}))
	case 2:
		return g.K()
	}
	return g.GP(Pick(g.r, gpSpecs))
}
func (g *progGen) synthInstr() *ir.Instruction {
	g.tag("synthetic")
	i := &ir.Instruction{Opcode: fmt.Sprintf("SYN%d", g.r.Intn(5))}
	n := 1 + g.r.Intn(3)
	for j := 0; j < n; j++ {
		var op operand.Op
		switch g.r.Intn(6) {
		case 0:
			op = g.Mem()
		case 1:
			op = operand.U8(g.r.Intn(200))
		default:
			op = g.anyReg()
		}
		i.Operands = append(i.Operands, op)
		k := g.r.Intn(4)
		if k&1 != 0 {
			i.Inputs = append(i.Inputs, op)
		}
		if k&2 != 0 {
			i.Outputs = append(i.Outputs, op)
		}
	}
	if g.r.Chance(15) && g.phys { // implicit physical operand, present in Inputs/Outputs only
		p := Pick(g.r, []reg.Register{reg.RAX, reg.RDX, reg.CL, reg.X0, reg.EAX})
		if g.r.Bool() {
			i.Inputs = append(i.Inputs, p)
		} else {
			i.Outputs = append(i.Outputs, p)
		}
		g.tag("implicit")
	}
	if g.r.Chance(10) {
		rs := 0
		for _, op := range i.Inputs {
			rs += len(operand.Registers(op))
		}
		if rs >= 2 {
			i.CancellingInputs = true
			g.tag("cancelling")
		}
	}
	return i
}

func (g *progGen) label() string { return fmt.Sprintf("L%d", g.r.Intn(g.nlbl)) }

type ProgOpts struct {
	MaxNodes  int
	Malformed bool // allow CFG errors (duplicate/undefined labels, trailing label, non-label branch)
	Phys      bool
	Synth     bool
	NVirt     int
	Branches  bool
}

func genProg(r *RNG, o ProgOpts) *Prog {
	g := &progGen{r: r, coll: reg.NewCollection(), tags: map[string]bool{}, phys: o.Phys, synth: o.Synth}
	nv := 1 + r.Intn(o.NVirt)
	for j := 0; j < nv; j++ {
		g.gp = append(g.gp, g.coll.GP(Pick(r, gpSpecs)))
	}
	for j := 0; j < 1+r.Intn(1+nv/3); j++ {
		g.vec = append(g.vec, g.coll.Vec(Pick(r, []reg.Spec{reg.S128, reg.S256, reg.S512})))
	}
	for j := 0; j < 1+r.Intn(3); j++ {
		g.k = append(g.k, g.coll.K())
	}
	n := 1 + r.Intn(o.MaxNodes)
	g.nlbl = 1 + n/6
	p := &Prog{Tags: g.tags}
	defined := map[string]bool{}
	for len(p.Nodes) < n {
		c := r.Intn(100)
		switch {
		case c < 12 && o.Branches:
			l := g.label()
			if defined[l] && !(o.Malformed && r.Chance(8)) {
				continue
			}
			if defined[l] {
				g.tag("dup-label")
			}
			defined[l] = true
			p.Nodes = append(p.Nodes, ir.Label(l))
		case c < 15:
			p.Nodes = append(p.Nodes, ir.NewComment("c"))
		case c < 27 && o.Branches:
			l := g.label()
			var i *ir.Instruction
			switch r.Intn(4) {
			case 0:
				i = must(x86.JMP(operand.LabelRef(l)))
				g.tag("jmp")
			case 1:
				i = must(x86.JNE(operand.LabelRef(l)))
			case 2:
				i = must(x86.JCXZQ(operand.Rel(int32(g.r.Intn(100)) - 50)))
				g.tag("branch-rel")
			default:
				i = must(x86.JE(operand.LabelRef(l)))
			}
			if o.Malformed && r.Chance(5) {
				i = must(x86.JMP(g.GP(reg.S64)))
				g.tag("branch-nonlabel")
			}
			if i != nil {
				p.Nodes = append(p.Nodes, i)
			}
		case c < 31:
			p.Nodes = append(p.Nodes, must(x86.RET()))
			g.tag("ret-middle")
		default:
			var i *ir.Instruction
			if o.Synth && r.Chance(35) {
				i = g.synthInstr()
			} else {
				i = g.realInstr()
			}
			if i != nil {
				p.Nodes = append(p.Nodes, i)
			}
		}
	}
	// make branch targets mostly defined
	if o.Branches {
		used := map[string]bool{}
		for _, nd := range p.Nodes {
			if i, ok := nd.(*ir.Instruction); ok && i.IsBranch {
				if l := i.TargetLabel(); l != nil {
					used[string(*l)] = true
				}
			}
		}
		for _, l := range sortedKeys(used) {
			if !defined[l] {
				if o.Malformed && r.Chance(15) {
					g.tag("undefined-label")
					continue
				}
				pos := r.Intn(len(p.Nodes) + 1)
				if pos == len(p.Nodes) && !(o.Malformed && r.Chance(10)) {
					pos = r.Intn(len(p.Nodes))
				}
				p.Nodes = append(p.Nodes[:pos], append([]ir.Node{ir.Label(l)}, p.Nodes[pos:]...)...)
				defined[l] = true
			}
		}
	}
	if r.Chance(70) {
		p.Nodes = append(p.Nodes, must(x86.RET()))
	}
	if o.Malformed && r.Chance(6) {
		p.Nodes = append(p.Nodes, ir.Label("Lend"))
		g.tag("trailing-label")
	}
	// the same function with its blocks laid out against the direction of execution: data-flow passes that
	// sweep the instruction list need one more round per block, and widths meet in the opposite order
	if o.Branches && !o.Malformed && len(p.Nodes) >= 4 && r.Chance(20) {
		if last, ok := p.Nodes[len(p.Nodes)-1].(*ir.Instruction); ok && last.IsTerminal {
			p.Nodes = reverseLayout(p.Nodes, r)
			g.tag("reverse-layout")
		}
	}
	switch r.Intn(6) {
	case 0:
		p.Attrs = attr.NOSPLIT
	case 1:
		p.Attrs = attr.NOFRAME | attr.NOSPLIT
		g.tag("noframe")
	case 2:
		p.Attrs = 0
	default:
		p.Attrs = attr.NOSPLIT
	}
	if r.Chance(30) {
		p.Local = 8 * (1 + r.Intn(4))
	}
	return p
}

// reverseLayout cuts the node list into 2..5 blocks, gives each a label and an explicit jump to the next
// one, and lays the blocks out last to first behind an initial jump to the first block.  The function
// computes the same thing.
func reverseLayout(ns []ir.Node, r *RNG) []ir.Node {
	k := 2 + r.Intn(4)
	if k > len(ns) {
		k = len(ns)
	}
	cuts := map[int]bool{}
	for len(cuts) < k-1 {
		cuts[1+r.Intn(len(ns)-1)] = true
	}
	var blocks [][]ir.Node
	start := 0
	for j := 1; j <= len(ns); j++ {
		if cuts[j] || j == len(ns) {
			blocks = append(blocks, ns[start:j])
			start = j
		}
	}
	jmp := func(l string) ir.Node { return must(x86.JMP(operand.LabelRef(l))) }
	out := []ir.Node{jmp("Lrev0")}
	for b := len(blocks) - 1; b >= 0; b-- {
		out = append(out, ir.Label(fmt.Sprintf("Lrev%d", b)))
		out = append(out, blocks[b]...)
		if b < len(blocks)-1 {
			lastI, isI := blocks[b][len(blocks[b])-1].(*ir.Instruction)
			if !isI || !(lastI.IsTerminal || lastI.IsUnconditionalBranch()) {
				out = append(out, jmp(fmt.Sprintf("Lrev%d", b+1)))
			}
		}
	}
	return out
}

// ---------------------------------------------------------------- staged execution of the real passes

type Observed struct {
	Stage                                         string // pass that failed ("" = success)
	ErrCode                                       int
	ErrMsg                                        string
	Targets                                       map[string]int // label -> instruction index (after prune passes)
	Succs                                         [][]int        // -1 = nil successor
	Preds                                         [][]int
	LiveIn                                        [][][2]uint64
	LiveOut                                       [][][2]uint64
	Alloc                                         [][2]uint64
	Nodes                                         []ir.Node // final nodes
	AfterJumps, AfterLabels, AfterZext, AfterBind []ir.Node
	Local                                         int
	ISA                                           []string
}

var errCodes = []struct {
	sub  string
	code int
}{
	{"duplicate label", 1}, {"function ends with label", 2}, {"no label for branch", 3}, {"unknown label", 4},
	{"unknown register family", 20}, {"no allocatable registers", 21}, {"impossible register allocation", 22},
	{"failed to allocate registers", 23}, {"disagreement on overlapping", 24}, {"non physical register", 25},
	{"NOFRAME function clobbers", 26}, {"r32 operand should satisfy", 27}, {"missing base register", 30}, {"index register with scale 0", 31},
	{"label", 5}, // any other complaint about a label
}

func errCode(err error) int {
	for _, e := range errCodes {
		if strings.Contains(err.Error(), e.sub) {
			return e.code
		}
	}
	return 98
}
func panicCode(v any) int {
	s := fmt.Sprint(v)
	switch {
	case strings.Contains(s, "index out of range"):
		return 101 // model: Panic 1 / 3 are both index panics; stage disambiguates
	case strings.Contains(s, "nil pointer"):
		return 102
	case strings.Contains(s, "r32 operand should satisfy"), strings.Contains(s, "interface conversion"):
		return 104
	}
	return 199
}

func maskList(s reg.MaskSet) [][2]uint64 {
	var l [][2]uint64
	for id, m := range s {
		l = append(l, [2]uint64{uint64(id), uint64(m)})
	}
	sort.Slice(l, func(i, j int) bool { return l[i][0] < l[j][0] })
	return l
}

func snapshotNodes(fn *ir.Function) []ir.Node {
	var out []ir.Node
	for _, n := range fn.Nodes {
		if i, ok := n.(*ir.Instruction); ok {
			out = append(out, cloneInstr(i))
		} else {
			out = append(out, n)
		}
	}
	return out
}

// runStaged runs the passes of pass.Compile one by one on a fresh copy, in the order of the
// modelled pipeline, recording observables after each.
func runStaged(p *Prog) (o *Observed) {
	o = &Observed{}
	fn := p.Function()
	f := ir.NewFile()
	f.AddSection(fn)
	stage := ""
	defer func() {
		if v := recover(); v != nil {
			o.Stage = stage
			o.ErrCode = panicCode(v)
			o.ErrMsg = fmt.Sprint(v)
		}
	}()
	step := func(name string, ps pass.Interface) bool {
		stage = name
		if err := ps.Execute(f); err != nil {
			o.Stage, o.ErrCode, o.ErrMsg = name, errCode(err), err.Error()
			return false
		}
		return true
	}
	if !step("Verify", pass.Verify) {
		return
	}
	if !step("PruneJumpToFollowingLabel", pass.FunctionPass(pass.PruneJumpToFollowingLabel)) {
		return
	}
	o.AfterJumps = snapshotNodes(fn)
	if !step("PruneDanglingLabels", pass.FunctionPass(pass.PruneDanglingLabels)) {
		return
	}
	o.AfterLabels = snapshotNodes(fn)
	if !step("LabelTarget", pass.FunctionPass(pass.LabelTarget)) {
		return
	}
	is := fn.Instructions()
	idx := map[*ir.Instruction]int{}
	for j, i := range is {
		idx[i] = j
	}
	o.Targets = map[string]int{}
	for l, t := range fn.LabelTarget {
		o.Targets[string(l)] = idx[t]
	}
	if !step("CFG", pass.FunctionPass(pass.CFG)) {
		return
	}
	for _, i := range is {
		var s, pr []int
		for _, x := range i.Succ {
			if x == nil {
				s = append(s, -1)
			} else {
				s = append(s, idx[x])
			}
		}
		for _, x := range i.Pred {
			pr = append(pr, idx[x])
		}
		o.Succs = append(o.Succs, s)
		o.Preds = append(o.Preds, pr)
	}
	if !step("ZeroExtend32BitOutputs", pass.InstructionPass(pass.ZeroExtend32BitOutputs)) {
		return
	}
	o.AfterZext = snapshotNodes(fn)
	if !step("Liveness", pass.FunctionPass(pass.Liveness)) {
		return
	}
	for _, i := range is {
		o.LiveIn = append(o.LiveIn, maskList(i.LiveIn))
		o.LiveOut = append(o.LiveOut, maskList(i.LiveOut))
	}
	if !step("AllocateRegisters", pass.FunctionPass(pass.AllocateRegisters)) {
		return
	}
	for v, ph := range fn.Allocation {
		o.Alloc = append(o.Alloc, [2]uint64{uint64(v), uint64(ph)})
	}
	sort.Slice(o.Alloc, func(i, j int) bool { return o.Alloc[i][0] < o.Alloc[j][0] })
	if !step("BindRegisters", pass.FunctionPass(pass.BindRegisters)) {
		return
	}
	o.AfterBind = snapshotNodes(fn)
	if !step("VerifyAllocation", pass.FunctionPass(pass.VerifyAllocation)) {
		return
	}
	if !step("EnsureBasePointerCalleeSaved", pass.FunctionPass(pass.EnsureBasePointerCalleeSaved)) {
		return
	}
	o.Local = fn.LocalSize
	if !step("IncludeTextFlagHeader", pass.Func(pass.IncludeTextFlagHeader)) {
		return
	}
	if !step("PruneSelfMoves", pass.FunctionPass(pass.PruneSelfMoves)) {
		return
	}
	if !step("RequiredISAExtensions", pass.FunctionPass(pass.RequiredISAExtensions)) {
		return
	}
	o.Nodes = snapshotNodes(fn)
	o.ISA = fn.ISA
	return
}

// runCompile runs the real pass.Compile end to end (the pass order of pass/pass.go, whatever it is)
// on a fresh copy of the program: error code, allocation, final nodes
func runCompile(p *Prog) (code int, alloc [][2]uint64, nodes []ir.Node, local int) {
	fn := p.Function()
	f := ir.NewFile()
	f.AddSection(fn)
	defer func() {
		if v := recover(); v != nil {
			code, alloc, nodes, local = panicCode(v), nil, nil, 0
		}
	}()
	if err := pass.Compile.Execute(f); err != nil {
		return errCode(err), nil, nil, 0
	}
	for v, ph := range fn.Allocation {
		alloc = append(alloc, [2]uint64{uint64(v), uint64(ph)})
	}
	sort.Slice(alloc, func(i, j int) bool { return alloc[i][0] < alloc[j][0] })
	return 0, alloc, snapshotNodes(fn), fn.LocalSize
}

func cPairs(l [][2]uint64) string {
	ss := make([]string, len(l))
	for i, e := range l {
		ss[i] = fmt.Sprintf("(%d,%d)", e[0], e[1])
	}
	return cList(ss)
}
func cOptNats(l []int) string {
	ss := make([]string, len(l))
	for i, e := range l {
		if e < 0 {
			ss[i] = "None"
		} else {
			ss[i] = fmt.Sprintf("Some %d%%nat", e)
		}
	}
	return cList(ss)
}
func cNats(l []int) string {
	ss := make([]string, len(l))
	for i, e := range l {
		ss[i] = fmt.Sprintf("%d%%nat", e)
	}
	return cList(ss)
}

var stageNum = map[string]int{"": 0, "Verify": 1, "PruneJumpToFollowingLabel": 2, "PruneDanglingLabels": 3, "LabelTarget": 4, "CFG": 5,
	"ZeroExtend32BitOutputs": 6, "Liveness": 7, "AllocateRegisters": 8, "BindRegisters": 9, "VerifyAllocation": 10,
	"EnsureBasePointerCalleeSaved": 11, "IncludeTextFlagHeader": 12, "PruneSelfMoves": 13, "RequiredISAExtensions": 14}

// Coq term for an observation (Model/Obs.v: record observed)
func (o *Observed) Coq() string {
	var tg []string
	for _, l := range sortedKeys(o.Targets) {
		tg = append(tg, fmt.Sprintf("(%s, %d%%nat)", cStr(l), o.Targets[l]))
	}
	var su, pr, live []string
	for j := range o.Succs {
		su = append(su, cOptNats(o.Succs[j]))
		pr = append(pr, cNats(o.Preds[j]))
	}
	for j := range o.LiveIn {
		live = append(live, "("+cPairs(o.LiveIn[j])+", "+cPairs(o.LiveOut[j])+")")
	}
	return fmt.Sprintf("{| o_stage := %d; o_err := %d; o_targets := %s; o_succs := %s; o_preds := %s; o_live := %s; o_alloc := %s; o_after_jumps := %s; o_after_labels := %s; o_after_zext := %s; o_after_bind := %s; o_nodes := %s; o_local := %d; o_isa := %s |}",
		stageNum[o.Stage], o.ErrCode, cList(tg), cList(su), cList(pr), cList(live), cPairs(o.Alloc),
		cNodes(o.AfterJumps), cNodes(o.AfterLabels), cNodes(o.AfterZext), cNodes(o.AfterBind), cNodes(o.Nodes), o.Local, cStrs(o.ISA))
}

func (p *Prog) Coq() string {
	return fmt.Sprintf("{| fnodes := %s; fattrs := %d; flocal := %d |}", cNodes(p.Nodes), uint64(p.Attrs), p.Local)
}

func (p *Prog) Text() string {
	var b strings.Builder
	for _, n := range p.Nodes {
		switch x := n.(type) {
		case ir.Label:
			fmt.Fprintf(&b, "%s: ", string(x))
		case *ir.Comment:
			b.WriteString("//c; ")
		case *ir.Instruction:
			var ops []string
			for _, op := range x.Operands {
				ops = append(ops, op.Asm())
			}
			fmt.Fprintf(&b, "%s %s; ", x.OpcodeWithSuffixes(), strings.Join(ops, ","))
		}
	}
	return fmt.Sprintf("attrs=%d local=%d | %s", p.Attrs, p.Local, b.String())
}

func tagList(m map[string]bool) []string {
	var l []string
	for k := range m {
		l = append(l, k)
	}
	sort.Strings(l)
	return l
}

func opsLabel(l string) []operand.Op { return []operand.Op{operand.LabelRef(l)} }
func opsReg() []operand.Op           { return []operand.Op{reg.RAX} }
