#!/bin/bash
# pregress.sh [workers]: replay every stored seeded change against the check of its own property, in
# parallel, on private copies of /repo and /verif under /var/tmp/pregress (nothing in /repo or /verif is
# touched; the registered checks themselves always run against /repo).  One line per seed in
# /var/tmp/pregress/result.txt: "<seed> with-input=N no-input=M | <summary>".
cd "$(dirname "$(realpath "$0")")"
W=${1:-4}
ROOT=/var/tmp/pregress
rm -rf $ROOT; mkdir -p $ROOT
ls -d seeded/C*${2:-}/ | sed 's|seeded/||; s|/||' | sort > $ROOT/all.txt
split -n r/$W $ROOT/all.txt $ROOT/part.
k=0
for part in $ROOT/part.*; do
  k=$((k+1)); D=$ROOT/w$k; mkdir -p $D
  (
    rsync -a --exclude .git /repo/ $D/repo/
    rsync -a --exclude .git --exclude 'coq/Gen' --exclude replay --exclude evidence --exclude seeded /verif/ $D/verif/
    mkdir -p $D/verif/evidence $D/verif/replay
    sed -i "s|=> /repo|=> $D/repo|" $D/verif/harness/go.mod
    for s in $(cat $part); do
      p=${s%%-*}
      ( cd $D/repo && patch -p1 -s < /verif/seeded/$s/patch.diff ) || { echo "$s PATCH-FAILED" >> $ROOT/result.txt; continue; }
      VERIF_REPO=$D/repo VERIF_TMP=$D $D/verif/check $p --tier quick > $D/out.txt 2>&1
      wi=$(grep -c '^VIOLATION' $D/out.txt); ni=$(grep -c '^VIOLATION.*no-failing-input-found' $D/out.txt)
      echo "$s with-input=$((wi-ni)) no-input=$ni | $(grep ' quick: ' $D/out.txt)" >> $ROOT/result.txt
      ( cd $D/repo && patch -R -p1 -s < /verif/seeded/$s/patch.diff )
    done
  ) &
done
wait
sort $ROOT/result.txt > $ROOT/sorted.txt
echo "done: $(wc -l < $ROOT/sorted.txt) seeds; not caught with an input:"
awk '$2=="with-input=0" || $2=="PATCH-FAILED"' $ROOT/sorted.txt
