#!/bin/bash
# seedtest.sh <patchfile> <Cxx> [Cyy ...]: apply a seeded change to /repo, run the quick checks, undo it.
PATCH=$(realpath $1); shift
git -C /repo apply $PATCH || exit 2
for p in "$@"; do ./check $p --tier quick 2>&1 | grep -v '^  ' | sed "s|^|[$p] |" | tail -8; done
git -C /repo checkout -- . ; git -C /repo status --short | head -3
