#!/bin/bash
# seedtest.sh <patchfile> <Cxx> [Cyy ...]: apply a seeded change to /repo, run the quick checks, undo it.
# Evidence files are saved and restored: committed evidence must come from runs on the unchanged tree.
PATCH=$(realpath $1); shift
cd "$(dirname "$(realpath "$0")")"
SAVE=$(mktemp -d /var/tmp/evidence-save.XXXXXX); cp -a evidence/. $SAVE/
git -C /repo apply $PATCH || { rm -rf $SAVE; exit 2; }
for p in "$@"; do ./check $p --tier quick 2>&1 | grep -v '^  ' | sed "s|^|[$p] |" | tail -8; done
git -C /repo checkout -- . ; git -C /repo status --short | head -3
rm -rf evidence; mkdir evidence; cp -a $SAVE/. evidence/; rm -rf $SAVE
