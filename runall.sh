#!/bin/bash
# runall.sh [tier]: every check on the current tree, four at a time (evidence is rewritten)
cd "$(dirname "$(realpath "$0")")"; T=${1:-quick}
ls coq/Props/ >/dev/null
printf '%s\n' C01 C02 C03 C04 C05 C06 C07 C08 C09 C10 C11 C12 C13 C14 C15 C16 C17 C18 C19 C20 | xargs -P 4 -I{} sh -c "./check {} --tier $T 2>&1 | grep -v '^KNOWN\|^  ' | tail -2"
