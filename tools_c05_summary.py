import json,collections,re,sys
p=json.load(open('/verif/coq/Gen/C05/plan.json'))
c=collections.Counter(); ex={}
for v in p['go_violations']:
    k=v['key']; k2=re.sub(r':[A-Z0-9_]+( .*)?$',r':<OP>',k)
    c[k2]+=1; ex.setdefault(k2,v['desc'][:int(sys.argv[1]) if len(sys.argv)>1 else 200])
for k,n in c.most_common(40): print(n,k,'|',ex[k])
print(p['env_validation'])
