#!/usr/bin/env python3
"""regenerates MANIFEST.json from manifest_src.json (per-property text) — keeps it valid at all times"""
import json, os
V = os.path.dirname(os.path.abspath(__file__))
src = json.load(open(os.path.join(V, "manifest_src.json")))
props = [json.loads(l)["id"] for l in open(os.path.join(V, "properties.jsonl"))]
checks, na = [], []
for p in props:
    c = src["checks"].get(p)
    if c is None:
        na.append({"property_id": p, "reason": src["not_applicable"].get(p, "check not yet built (work in progress in this development); nothing is claimed for it")})
        continue
    checks.append({
        "property_id": p,
        "quick_cmd": "./check %s --tier quick" % p,
        "thorough_cmd": "./check %s --tier thorough" % p,
        "evidence_file": "/verif/evidence/%s.json" % p,
        "replay_cmd_template": "./check %s --replay {path}" % p,
        "engine": "coq-model+go-harness",
        "level_claimed": {"category": "proof", "text": c["text"], "design_ref": c.get("design_ref", "DESIGN.md §6 " + p)},
        "level_note": c["note"],
        "technique": c["technique"],
    })
m = {
    "version": 1,
    "setup_cmd": "./check setup",
    "hooks": {"guard": "verif", "enable": "go build -tags verif -overlay /verif/harness/bin/overlay.json (add-only overlay files from /verif/harness/overlay; nothing is committed to /repo for instrumentation)",
              "baseline_off_cmd": "cd /repo && GOFLAGS=-mod=mod GOPROXY=off GOSUMDB=off GOTOOLCHAIN=local go test -json -vet=off -count=1 -timeout 25m ./...",
              "source_commits": [], "add_only": True},
    "engines": [{"name": "coq-model+go-harness", "path": "/verif/check", "serves_properties": [c["property_id"] for c in checks],
                 "kind_free_text": "Coq 8.16 models + theorems (coq/), tied to /repo on every run by Go translators and a correspondence harness (harness/), driven by ./check"}],
    "checks": checks,
    "notes": src.get("notes", ""),
    "not_applicable": na,
}
json.dump(m, open(os.path.join(V, "MANIFEST.json"), "w"), indent=1)
print("claimed:", [c["property_id"] for c in checks])
