#!/bin/bash
# regress.sh: every stored seeded change against the check of its own property (sequential; modifies and
# restores /repo; do not run other checks meanwhile).  One line per seed.
cd "$(dirname "$(realpath "$0")")"
for d in seeded/C*/; do
  s=$(basename $d); p=${s%%-*}
  [ -f $d/patch.diff ] || continue
  echo -n "$s "; ./seedsum.sh $d/patch.diff $p | head -1
done
